#!/usr/bin/env python3
# dev helper: regenerates the generated tables of DESIGN.md (§10.2 from the //verif:harness,
# //verif:bounds and //verif:assume directives of the harness sources, §10.4 from seeded/*/meta.json)
import re, glob, json, os
root = '/verif'
rows = {}
for f in sorted(glob.glob(root + '/harness/*/*.go')):
    lines = open(f).read().split('\n')
    for i, l in enumerate(lines):
        m = re.match(r'//verif:harness prop=(C\d+) quick=(\d+) thorough=(\d+)(.*)', l)
        if not m:
            continue
        prop, q, t, rest = m.groups()
        bounds, assume, name = '', '', ''
        for k in range(i + 1, min(i + 8, len(lines))):
            if lines[k].startswith('//verif:bounds '):
                bounds = lines[k][len('//verif:bounds '):]
            elif lines[k].startswith('//verif:assume '):
                assume = lines[k][len('//verif:assume '):]
            elif lines[k].startswith('func '):
                name = re.match(r'func (\w+)', lines[k]).group(1)
                break
        rows.setdefault(prop, []).append((name, q, t, rest.strip(), bounds, assume, os.path.basename(os.path.dirname(f))))
out = ['| id | harness (package) | shards q/t | bounds run (quick / thorough) | environment assumptions |', '|---|---|---|---|---|']
for prop in sorted(rows):
    for (name, q, t, rest, bounds, assume, pkg) in sorted(rows[prop]):
        out.append('| %s | `%s` (%s) | %s/%s | %s | %s |' % (prop, name.replace('VH_' + prop + '_', ''), pkg, q, t, bounds.replace('|', '\\|'), assume.replace('|', '\\|') or '—'))
t102 = '\n'.join(out)

seeds = []
for f in sorted(glob.glob(root + '/seeded/*/meta.json')):
    m = json.load(open(f))
    seeds.append(m)
out = ['| seed | change | caught by | initially missed |', '|---|---|---|---|']
for m in seeds:
    out.append('| %s | %s | %s | %s |' % (m['seed'], m['change'].replace('|', '\\|'), str(m.get('caught_by', '')).replace('|', '\\|'), 'yes' if m.get('initially_missed') else 'no'))
missed = sum(1 for m in seeds if m.get('initially_missed'))
t104 = '\n'.join(out) + '\n\n%d seeds kept; %d were caught by the checks as they stood when the seed arrived, %d were missed at first and are caught after a general strengthening of the check.' % (len(seeds), len(seeds) - missed, missed)

p = root + '/DESIGN.md'
s = open(p).read()
def splice(s, tag, body):
    a, b = '<!-- gen:%s -->' % tag, '<!-- /gen:%s -->' % tag
    i, j = s.index(a), s.index(b)
    return s[:i + len(a)] + '\n' + body + '\n' + s[j:]
s = splice(s, '10.2', t102)
s = splice(s, '10.4', t104)
open(p, 'w').write(s)
print('ok', len(seeds), 'seeds')
