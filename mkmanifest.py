#!/usr/bin/env python3
"""Regenerates /verif/MANIFEST.json from the table below (dev helper; the JSON is what is committed and used)."""
import json, subprocess

ALL = [json.loads(l)['id'] for l in open('/verif/properties.jsonl')]

TECH = "bounded symbolic execution of /repo's go/ssa (gosym) + SMT (z3 5.1 incremental; z3 4.8.12/cvc5 fallback), counterexamples replayed natively"

CLAIMED = {
 "C01": ("§4 C01", "GenBank.String (the whole writer incl. INSDC table, qualifier kinds, wrap, ORIGIN/CONTIG) is executed on bounded template records with symbolic residues, header letters, valid symbolic calendar date and symbolic feature coordinates/partial flags/strand; the written text is scanned by the real reader: accepted, residues/feature table/header fields equal, and writing the re-read record reproduces the text byte for byte. The same is done for records reached by one edit operation (insert, embed, delete, erase, slice, rotate, reverse, complement, concat with symbolic arguments; CONTIG-only records through reverse/complement) and for streams of 2-3 records (framed independently).",
         "template shapes bounded as stated in the evidence (feature keys over the INSDC key alphabet <= 3 characters, qualifier values over letters, one DBLINK entry, short organism names); time.Format modelled field by field for valid dates; corpus records and pipelines of more than one operation are outside"),
 "C02": ("§4 C02", "Shift/Expand (n>=0) of every location shape in the bound is proved, for all coordinates/i/n/L <= 2^40 at once, to denote exactly the host residues under the insert map (Embed: plus the guest inside strictly spanning parts), in the same order and strand, with markers on the same ends; gts.Insert/Embed are additionally executed on symbolic-byte sequences (host residues with or without spare capacity; a second insertion into the same host is placed exactly again and leaves the first result unchanged).",
         "shapes bounded (<=3 parts, depth 2; API level: short sequences); coordinates capped at 2^40; SMT Int encoding with discharged no-overflow obligations"),
 "C03": ("§4 C03", "Expand(i,-n) (the location half of Delete/Erase/Slice) is proved to keep exactly the surviving residues in order and strand, collapse emptied locations to a site at the cut, stay in range and set the partial markers of cut ends, for all coordinates; gts.Delete/Erase/Slice are executed on symbolic sequences (every (i,n), every window incl. wrap-around, empty and negative indices, sources on either strand); GenBank REFERENCE base ranges are checked against a reference model for forward windows (exact text) and wrap-around windows (coverage).",
         "same bounds as C02; records of 4-9 residues at API level; the Join(Ranged,Point) reduction pinned by TestLocationReduction is a listed known finding"),
 "C04": ("§4 C04", "Expand(-1,n).Normalize(L) (what Rotate applies) is proved with a *symbolic* L (bounded-quotient modulus) to denote the same residues under x->(x+n) mod L, split origin-spanning ranges into two parts reading across the origin with markers on the outer ends, keep full-length parts full-length and move between-sites with their residues; gts.Rotate is executed for every n in [-3L,3L] on short sequences incl. the additive law on residues, coverage and sites.",
         "n already reduced to [0,L) at location level (Rotate's own reduction is executed at API level with concrete L); ambiguous spans not crossing the origin"),
 "C05": ("§4 C05", "Reverse(L) of every shape in the bound (arity 1..5, odd and even, nested under complement) is proved to mirror coverage per strand, mirror part order, keep arity, swap markers and be an involution, for all coordinates and L; gts.Reverse/gts.Complement are executed on sequences with symbolic feature shapes (mirror per strand, strand flip, involutions) and the extraction law (reverse-complement preserves the extracted sequence) on symbolic residues.",
         "Between.Reverse (pinned by TestLocationReverse) and Join(Ranged,Point) are listed known findings"),
 "C06": ("§4 C06", "Join/Order of 2..5 parts are proved to keep the covered set per strand and the first-occurrence reading order and never to invent markers; location text is printed and re-parsed symbolically within the stated digit/length bounds.",
         "Join(Ranged,Point) pinned by TestLocationReduction is a listed known finding"),
 "C07": ("§4 C07", "every entry point is executed on fully symbolic short inputs (each byte ranges over all 256 values, partitioned by the comparisons the real parser makes) and on single structure-aware edits (truncate/flip/delete/insert/line delete/duplicate at every offset, symbolic byte) of a writer-produced GenBank record: no Go panic, the scan loop terminates, three- and four-part location strings with symbolic digits (points, sites, ranges, partial ranges under join/order/complement) are parsed and reduced to the end (per-path step bound; a counterexample is a native hang), truncation is reported, and an accepted record has residues == declared length == residues present in ORIGIN.",
         "input lengths and the base record are bounded as stated; non-ASCII bytes reaching UTF-8 decoding are cut (listed under paths_cut_outside_claim); regexp.Compile on symbolic patterns is nondeterministic; io.Readers deliver whole buffers"),
 "C08": ("§4 C08", "Regions.Resize/Segment.Resize are proved, for 1..5 segments on either strand and all five modifier forms with unbounded offsets, to yield exactly the bases [lo,hi) of the spliced region (position and strand of every t-th base), extending the first/last segment outward; the law is also executed on residues (Locate of the resized region equals the slice of Locate of the region) for 1-2 segments at every position; modifiers print and re-parse; locators compose (selector, @M, ranges, points, keys that do not start with a letter) and are repeatable.",
         "segments non-empty except in the zero-length strand harness (a listed known finding); segment count bounded; modifier text round trip with offsets up to 99 / 9999; locator composition on a fixed list of locator strings"),
 "C09": ("§4 C09", "Minimize/InvertLinear/InvertCircular are proved on collections of up to 5 segments (any overlap/orientation/order, real sort.Sort source) to give forward, increasing, non-abutting segments with the same coverage, and an inversion that partitions [0,n) with it.",
         "total number of segments bounded; n and coordinates symbolic <= 2^40"),
 "C10": ("§4 C10", "Expand(i,-n) after Shift(i,n)/Expand(i,n) is proved to restore the denotation, order, strand and markers of every shape in the bound (single parts come back as exactly that part); slice*;concat is executed on symbolic sequences with 1-2 cuts (with and without a source, so pieces may carry no feature), and Concat's offsets for three pieces incl. a bare middle piece.",
         "shapes bounded as C02; sequences of 5-6 residues at API level"),
 "C11": ("§4 C11", "each of 16 library operations is executed on sequences whose residue bytes are symbolic and whose slices have every aliasing shape (len==cap, spare capacity, sub-slice of a larger caller-owned buffer; feature tables with spare slots); a deep snapshot of everything the caller can observe (whole backing buffer, keys, location atoms, qualifier strings) is asserted unchanged after the call and after a second call, and the first result is asserted unchanged by the second call. The engine's slice model implements append's in-place rule, so aliasing writes are visible exactly as at run time.",
         "sequence lengths 4/2, two host features; quick uses concrete coordinates; data races and reflection-based observers are outside"),
 "C12": ("§4 C12", "Repair is executed on tables of 2-3 same/different-class features with symbolic coordinates and partial flags on either strand (incl. joins): no panic, idempotent, unchanged without an abutting 3'/5'-partial pair (any abutting pair for source), merges only with such a pair, per-class coverage unchanged; chains of three fragments with a join that sorts before the fragments it continues reach the fixed point in one call; and on slice;...;concat;repair round trips with 1-2 symbolic cut positions restoring class-unique features exactly.",
         "restoration is asserted for cuts that fall strictly inside a part or miss the feature, and for joins with ascending disjoint parts (see DESIGN §6 for why the remaining cases are not decidable from the table); table sizes bounded"),
 "C13": ("§4 C13", "cache.Create/Write/Close then one fault then cache.Open are executed over an in-memory file system with symbolic body bytes, symbolic root/data digests and a symbolic fault (flip of any byte by any non-zero mask, any truncation, appended bytes, other digests, another entry's content, every crash point of the write protocol): Open succeeds only if the file is bytewise the finished entry opened with its own digests, and then reads back the written bytes.",
         "stubs: in-memory FS, flate = self-delimiting buffered framing, uninterpreted 2-byte digest with collision-freeness assumed between the compared inputs and a non-zero root digest; real OS failure modes are outside; counterexamples replay on real files with real flate and SHA-1"),
 "C14": ("§4 C14", "protocol layer: the real `gts delete` (ioDelegate, TryCache, cache.File, writer) plus main()'s epilogue is run in histories of three invocations over one cache directory with symbolic inputs (same/different), different locators and failing runs; every invocation's stdout bytes and exit status are asserted equal to the same invocation under --no-cache. Crash histories: a run that panics mid-stream (deferred calls run, main()'s epilogue does not) followed by identical runs. Key completeness by self-composition: extract, delete, insert, query, search, select, sort, join, rotate, split, infix, pick, summary, define and the option-less clear/reverse/complement/repair are each run twice with independently chosen option vectors; equal cache key (entry name) must imply equal output. Secondary inputs: insert/search with a literal and with a file of symbolic bytes through the real scanner, insert/infix with two files that hold the same residues as different records.",
         "stubs: scanner queue, in-memory FS, flate framing model, uninterpreted collision-free digests, json.Marshal = injective structural encoding (the real encodePayload runs); natively (replay) real files, real SHA-1/flate/json and XDG_CACHE_HOME; delete/insert/search/infix are driven at the protocol layer and eighteen commands for key completeness, annotate with a changing feature-table file - the -F/-o options beyond delete -o, and outputs beyond about 1 KB (seed C14-6 is a documented miss), are outside the bound"),
 "C15": ("§4 C15", "the real command functions deleteFunc/insertFunc/infixFunc/rotateFunc/splitFunc/extractFunc (flag parsing, locator, Minimize/flip/sort, the library edits) are executed on a record with symbolic residues and 2-3 gene features whose coordinates and strands are symbolic (so sites overlap, nest, coincide, come unsorted): delete removes exactly the union, insert places one guest copy per site at its 5' position in input coordinates, rotate brings the first site to 0, split pieces concatenate to the (re-origined) input, extract emits each distinct shorter region once in order / with -v the maximal unlocated stretches; every emitted record is formatted by the real GenBank writer.",
         "stubs: scanner = queue of harness-built records, writer = capturing sink, IsTerminal=false, --no-cache; natively (witness validation and counterexample replay) the real reader, writer and command run on real files; record length 4-8; -F conversions not covered"),
 "C16": ("§4 C16", "fromOriginLength(toOriginLength(n))=n, strict monotonicity and an independently written layout formula are proved for every n in [0,4e18] in one query each; NewOrigin/Bytes layout is executed on symbolic residues for bounded lengths.",
         "layout harness lengths bounded as stated in the evidence"),
 "C17": ("§4 C17", "FastaWriter/wrap.Force/FastaParser/Scanner are executed on records with symbolic descriptions and symbolic residues (printable minus '>') at lengths around the 70-column boundaries, 1-3 records per stream, LF and CRLF: same count, descriptions and residues; GenBank->FASTA conversion keeps residues and builds the documented description (also for slices).",
         "residue lengths are the listed concrete values"),
 "C18": ("§4 C18", "Complement/Transcribe are executed on a symbolic byte (all 256 values per query) against a 16-letter base-set table written in the harness; gts.Match is executed with 1-2 fully symbolic query bytes against 1-3 symbolic sequence letters: never panics, every reported segment is a match under base-set inclusion (literal bytes match only themselves), segments ascend without overlap and every match overlaps a reported one; Complement and Transcribe keep no state between calls; gts.Search on symbolic sequences/queries (query shorter than, as long as, and longer than the sequence) returns exactly the ascending list of all overlapping case-insensitive occurrences.",
         "regexp is replaced by a fixed-width class model of exactly the patterns Match builds, index/suffixarray by its contract (all occurrence offsets, unspecified order); the K class [gtuy] pinned by TestMatch is a listed known finding; counterexamples replay against the real regexp/suffixarray"),
 "C19": ("§4 C19", "LocationLess is proved irreflexive/asymmetric/transitive on triples of bounded shapes for all coordinates; FeatureSlice.Insert (real sort.Search) is proved to keep exactly the inserted features, sources first, in non-decreasing order; Within/Overlap/And/Or/Not/Key/strand filters and Filter against pointwise references; Selector against a reference reading of the grammar (named/unnamed clauses, repeated names, regexps with escapes).",
         "table sizes and shapes bounded; selector regexps are an uninterpreted predicate where used"),
}

REASON_TODO = "check not built yet in this session (engine tier under construction); see DESIGN.md §8"

def main():
    checks = []
    for pid in ALL:
        if pid not in CLAIMED:
            continue
        ref, text, note = CLAIMED[pid]
        checks.append({
            "property_id": pid,
            "quick_cmd": f"/verif/bin/gosym check {pid} --tier quick",
            "thorough_cmd": f"/verif/bin/gosym check {pid} --tier thorough",
            "evidence_file": f"/verif/evidence/{pid}.json",
            "replay_cmd_template": "/verif/bin/gosym replay {path}",
            "engine": "gosym",
            "level_claimed": {"category": "model_checking", "text": text, "design_ref": ref},
            "level_note": note + "; trusted base: gosym's SSA semantics (validated on every run by replaying solver witnesses natively), z3, the stubs listed in the evidence",
            "technique": TECH,
        })
    fixes = subprocess.check_output(["git", "-C", "/repo", "log", "--format=%h %s", "3a61115..HEAD"]).decode().strip().split("\n")
    m = {
        "version": 1,
        "setup_cmd": "cd /verif/gosym && GOFLAGS=-mod=mod GOPROXY=off GOSUMDB=off GOTOOLCHAIN=local go build -o /verif/bin/gosym .",
        "hooks": {"guard": "verif", "enable": "no hooks in /repo: harness files are injected as go/packages overlays (virtual /repo/<pkg>/zz_verif_*.go) and as `go test -overlay` files for native replay",
                  "baseline_off_cmd": "cd /repo && go test -vet=off -count=1 ./...", "source_commits": [], "add_only": True},
        "engines": [{"name": "gosym", "path": "/verif/gosym", "serves_properties": sorted(CLAIMED), "kind_free_text": "symbolic executor for the go/ssa of /repo's working tree (rebuilt every run) with SMT back end; bounded model checking"}],
        "checks": checks,
        "not_applicable": [{"property_id": p, "reason": REASON_TODO} for p in ALL if p not in CLAIMED],
        "notes": "fix: commits made in /repo (each recorded in known_findings.json 'fixed'): " + "; ".join(f for f in fixes if " fix:" in f),
    }
    json.dump(m, open('/verif/MANIFEST.json', 'w'), indent=1)

main()
