package main

import (
	"fmt"
	"go/token"
	"go/types"
	"math"
	"unicode/utf8"

	"golang.org/x/tools/go/ssa"
)

type intKind struct {
	bits   int
	signed bool
}

func intKindOf(t types.Type) (intKind, bool) {
	b, ok := t.Underlying().(*types.Basic)
	if !ok || b.Info()&types.IsInteger == 0 {
		return intKind{}, false
	}
	switch b.Kind() {
	case types.Int, types.Int64, types.UntypedInt, types.UntypedRune:
		return intKind{64, true}, true
	case types.Int8:
		return intKind{8, true}, true
	case types.Int16:
		return intKind{16, true}, true
	case types.Int32:
		return intKind{32, true}, true
	case types.Uint, types.Uint64, types.Uintptr:
		return intKind{64, false}, true
	case types.Uint8:
		return intKind{8, false}, true
	case types.Uint16:
		return intKind{16, false}, true
	case types.Uint32:
		return intKind{32, false}, true
	}
	return intKind{}, false
}

func (k intKind) rng() (int64, int64) {
	if k.signed {
		if k.bits == 64 {
			return math.MinInt64, math.MaxInt64
		}
		return -(int64(1) << (k.bits - 1)), int64(1)<<(k.bits-1) - 1
	}
	if k.bits == 64 {
		return 0, math.MaxInt64 // values in [2^63,2^64) are not representable: treated as overflow
	}
	return 0, int64(1)<<k.bits - 1
}

// wrap enforces the machine range of kind k on the mathematical result t.
// Narrow types wrap exactly (mod 2^bits); for 64-bit types the engine proves
// that no wrap can happen on this path, otherwise the run is inconclusive.
func (w *Worker) wrap(st *State, t *Term, k intKind, what string) *Term {
	lo, hi := k.rng()
	if t.lo >= lo && t.hi <= hi {
		return t
	}
	if t.isConst() {
		if k.bits < 64 {
			m := int64(1) << k.bits
			v := ((t.k % m) + m) % m
			if k.signed && v >= m/2 {
				v -= m
			}
			return mkInt(v)
		}
		if !k.signed && t.k < 0 {
			unsupported("uint64 wrap of concrete value %d in %s", t.k, what)
		}
		return t
	}
	if k.bits < 64 {
		m := mkInt(int64(1) << k.bits)
		if !k.signed {
			return mkEMod(t, m)
		}
		h := mkInt(int64(1) << (k.bits - 1))
		return mkSub(mkEMod(mkAdd(t, h), m), h)
	}
	// 64-bit: no-overflow obligation
	var viol *Term
	if k.signed {
		viol = mkOr(mkLt(t, mkInt(math.MinInt64)), mkLt(mkInt(math.MaxInt64), t))
		if t.lo > negInf && t.hi < posInf {
			return t // interval already inside ±2^62
		}
	} else {
		viol = mkLt(t, mkInt(0))
		if t.lo >= 0 {
			return t
		}
	}
	r, _ := w.solver.check(append(st.pc[:len(st.pc):len(st.pc)], viol), false)
	if r != Unsat {
		w.job.overflow(what, r)
		unsupported("OVERFLOW-REACHABLE: %s may leave the %d-bit range (%s)", what, k.bits, r)
	}
	w.job.Overflow++
	// remember the proven range to avoid re-proving
	if k.signed {
		return t
	}
	return t
}

func (w *Worker) binop(f *frame, x *ssa.BinOp, work *[]*frame) (Value, string) {
	a, b := f.get(w, x.X), f.get(w, x.Y)
	st := f.st
	switch x.Op {
	case token.EQL:
		return w.valuesEqual(st, a, b), ""
	case token.NEQ:
		return mkNot(w.valuesEqual(st, a, b)), ""
	}
	switch av := a.(type) {
	case *Term:
		bv := b.(*Term)
		if av.sort == SBool {
			unsupported("bool binop %s", x.Op)
		}
		k, _ := intKindOf(x.X.Type())
		what := fmt.Sprintf("%s at %s", x.Op, w.pos(x.Pos(), f))
		switch x.Op {
		case token.ADD:
			return w.wrap(st, mkAdd(av, bv), k, what), ""
		case token.SUB:
			return w.wrap(st, mkSub(av, bv), k, what), ""
		case token.MUL:
			return w.wrap(st, mkMul(av, bv), k, what), ""
		case token.QUO, token.REM:
			if bv.isConst() && bv.k == 0 {
				return nil, "integer divide by zero"
			}
			if !bv.isConst() && bv.lo <= 0 && bv.hi >= 0 {
				if w.decide(f, mkEq(bv, mkInt(0)), work) {
					return nil, "integer divide by zero"
				}
			}
			q, r := w.goDivMod(f, av, bv, work)
			if x.Op == token.QUO {
				return w.wrap(st, q, k, what), ""
			}
			return r, ""
		case token.LSS:
			return mkLt(av, bv), ""
		case token.LEQ:
			return mkLe(av, bv), ""
		case token.GTR:
			return mkLt(bv, av), ""
		case token.GEQ:
			return mkLe(bv, av), ""
		case token.SHL:
			if !bv.isConst() {
				if bv.lo >= 0 && bv.hi <= 16 && av.isConst() {
					vals := make([]Value, bv.hi+1)
					for i := range vals {
						vals[i] = w.wrap(st, mkInt(av.k<<uint(i)), k, what)
					}
					return iteChain(bv, vals), ""
				}
				unsupported("shift by symbolic amount at %s", w.pos(x.Pos(), f))
			}
			if bv.k >= 62 {
				if av.isConst() {
					if k.bits == 64 && !k.signed {
						unsupported("wide shift")
					}
					return w.wrap(st, mkInt(av.k<<uint(bv.k)), k, what), ""
				}
				unsupported("shift left by %d", bv.k)
			}
			return w.wrap(st, mkMul(av, mkInt(int64(1)<<uint(bv.k))), k, what), ""
		case token.SHR:
			if !bv.isConst() {
				unsupported("shift by symbolic amount at %s", w.pos(x.Pos(), f))
			}
			if av.isConst() {
				if k.signed {
					if bv.k >= 64 {
						return mkInt(av.k >> 63), ""
					}
					return mkInt(av.k >> uint(bv.k)), ""
				}
				if bv.k >= 64 {
					return mkInt(0), ""
				}
				return mkInt(int64(uint64(av.k) >> uint(bv.k))), ""
			}
			if bv.k >= 62 {
				if k.signed {
					return mkIte(mkLt(av, mkInt(0)), mkInt(-1), mkInt(0)), ""
				}
				if bv.k >= int64(k.bits) || av.hi < posInf {
					return mkInt(0), ""
				}
				unsupported("unsigned shift right by %d", bv.k)
			}
			return mkEDiv(av, mkInt(int64(1)<<uint(bv.k))), ""
		case token.AND, token.OR, token.XOR, token.AND_NOT:
			return w.bitop(st, x.Op, av, bv, k, what), ""
		}
		unsupported("int binop %s", x.Op)
	case StrV:
		bv := b.(StrV)
		switch x.Op {
		case token.ADD:
			if av.isConcrete() && bv.isConcrete() {
				return StrV{s: av.s + bv.s}, ""
			}
			return strFromTerms(append(append([]*Term{}, av.bytes()...), bv.bytes()...)), ""
		case token.LSS:
			return strLess(av, bv, false), ""
		case token.LEQ:
			return strLess(av, bv, true), ""
		case token.GTR:
			return strLess(bv, av, false), ""
		case token.GEQ:
			return strLess(bv, av, true), ""
		}
	case float64:
		bv := b.(float64)
		switch x.Op {
		case token.ADD:
			return av + bv, ""
		case token.SUB:
			return av - bv, ""
		case token.MUL:
			return av * bv, ""
		case token.QUO:
			return av / bv, ""
		case token.LSS:
			return mkBool(av < bv), ""
		case token.LEQ:
			return mkBool(av <= bv), ""
		case token.GTR:
			return mkBool(av > bv), ""
		case token.GEQ:
			return mkBool(av >= bv), ""
		}
	}
	unsupported("binop %s on %T at %s", x.Op, a, w.pos(x.Pos(), f))
	return nil, ""
}

// goDivMod: Go truncated division. Constant positive divisors are encoded
// with SMT div/mod; a symbolic divisor uses the bounded-quotient expansion.
func (w *Worker) goDivMod(f *frame, a, b *Term, work *[]*frame) (*Term, *Term) {
	if a.isConst() && b.isConst() {
		return mkInt(a.k / b.k), mkInt(a.k % b.k)
	}
	if b.isConst() {
		d := b
		neg := false
		if b.k < 0 {
			d = mkInt(-b.k)
			neg = true
		}
		var q, r *Term
		if a.lo >= 0 {
			q, r = mkEDiv(a, d), mkEMod(a, d)
		} else if a.hi <= 0 {
			na := mkNeg(a)
			q, r = mkNeg(mkEDiv(na, d)), mkNeg(mkEMod(na, d))
		} else {
			na := mkNeg(a)
			c := mkLe(mkInt(0), a)
			q = mkIte(c, mkEDiv(a, d), mkNeg(mkEDiv(na, d)))
			r = mkIte(c, mkEMod(a, d), mkNeg(mkEMod(na, d)))
		}
		if neg {
			q = mkNeg(q)
		}
		return q, r
	}
	// symbolic divisor: require b > 0 and a >= 0 with a < K*b, K bounded
	const K = 8
	st := f.st
	pre := mkAnd(mkLt(mkInt(0), b), mkLe(mkInt(0), a), mkLt(a, mkMul(b, mkInt(K))))
	if !pre.isTrue() {
		r, _ := w.solver.check(append(st.pc[:len(st.pc):len(st.pc)], mkNot(pre)), false)
		if r != Unsat {
			unsupported("symbolic divisor outside the bounded-quotient encoding (need 0<=a<%d*b, b>0): %s", K, r)
		}
		w.job.Overflow++
	}
	q := mkInt(K - 1)
	r := mkSub(a, mkMul(b, mkInt(K-1)))
	for i := K - 2; i >= 0; i-- {
		c := mkLt(a, mkMul(b, mkInt(int64(i+1))))
		q = mkIte(c, mkInt(int64(i)), q)
		r = mkIte(c, mkSub(a, mkMul(b, mkInt(int64(i)))), r)
	}
	return q, r
}

func isPow2(v int64) (int, bool) {
	if v <= 0 || v&(v-1) != 0 {
		return 0, false
	}
	n := 0
	for v > 1 {
		v >>= 1
		n++
	}
	return n, true
}

func bitOf(x *Term, k int) *Term { // 0/1 Int
	return mkEMod(mkEDiv(x, mkInt(int64(1)<<uint(k))), mkInt(2))
}

func (w *Worker) bitop(st *State, op token.Token, a, b *Term, k intKind, what string) Value {
	if a.isConst() && b.isConst() {
		var r int64
		switch op {
		case token.AND:
			r = a.k & b.k
		case token.OR:
			r = a.k | b.k
		case token.XOR:
			r = a.k ^ b.k
		case token.AND_NOT:
			r = a.k &^ b.k
		}
		return mkInt(r)
	}
	// x ^ m with m in {0,-1}  (Abs idiom)
	if op == token.XOR {
		if b.lo >= -1 && b.hi <= 0 {
			return mkIte(mkEq(b, mkInt(0)), a, mkSub(mkNeg(a), mkInt(1)))
		}
		if a.lo >= -1 && a.hi <= 0 {
			return mkIte(mkEq(a, mkInt(0)), b, mkSub(mkNeg(b), mkInt(1)))
		}
	}
	if a.isConst() && op != token.AND_NOT {
		a, b = b, a
	}
	// symbolic a (non-negative, bounded) with constant mask b
	if b.isConst() && a.lo >= 0 && a.hi < 1<<20 && b.k >= 0 {
		if op == token.AND {
			if n, ok := isPow2(b.k + 1); ok {
				return mkEMod(a, mkInt(int64(1)<<uint(n)))
			}
		}
		nb := 1
		for int64(1)<<uint(nb) <= max64(a.hi, b.k) {
			nb++
		}
		res := mkInt(0)
		for i := 0; i < nb; i++ {
			cb := (b.k >> uint(i)) & 1
			ab := bitOf(a, i)
			var bit *Term
			switch op {
			case token.AND:
				if cb == 1 {
					bit = ab
				} else {
					bit = mkInt(0)
				}
			case token.OR:
				if cb == 1 {
					bit = mkInt(1)
				} else {
					bit = ab
				}
			case token.XOR:
				if cb == 1 {
					bit = mkSub(mkInt(1), ab)
				} else {
					bit = ab
				}
			case token.AND_NOT:
				if cb == 1 {
					bit = mkInt(0)
				} else {
					bit = ab
				}
			}
			res = mkAdd(res, mkMul(bit, mkInt(int64(1)<<uint(i))))
		}
		return res
	}
	if a.lo >= 0 && a.hi < 256 && b.lo >= 0 && b.hi < 256 {
		res := mkInt(0)
		for i := 0; i < 8; i++ {
			x, y := mkEq(bitOf(a, i), mkInt(1)), mkEq(bitOf(b, i), mkInt(1))
			var c *Term
			switch op {
			case token.AND:
				c = mkAnd(x, y)
			case token.OR:
				c = mkOr(x, y)
			case token.XOR:
				c = mkNot(mkEq(x, y))
			case token.AND_NOT:
				c = mkAnd(x, mkNot(y))
			}
			res = mkAdd(res, mkIte(c, mkInt(int64(1)<<uint(i)), mkInt(0)))
		}
		return res
	}
	unsupported("bit operation %s on symbolic operands (%s)", op, what)
	return nil
}

func strLess(a, b StrV, orEq bool) *Term {
	if a.isConcrete() && b.isConcrete() {
		if orEq {
			return mkBool(a.s <= b.s)
		}
		return mkBool(a.s < b.s)
	}
	na, nb := a.length(), b.length()
	n := na
	if nb < n {
		n = nb
	}
	// lexicographic from the end
	var res *Term
	if na < nb {
		res = tTrue
	} else if na == nb {
		res = mkBool(orEq)
	} else {
		res = tFalse
	}
	for i := n - 1; i >= 0; i-- {
		x, y := a.at(i), b.at(i)
		res = mkIte(mkLt(x, y), tTrue, mkIte(mkLt(y, x), tFalse, res))
	}
	return res
}

func (w *Worker) unop(x *ssa.UnOp, v Value) Value {
	switch x.Op {
	case token.NOT:
		return mkNot(v.(*Term))
	case token.SUB:
		switch t := v.(type) {
		case *Term:
			k, _ := intKindOf(x.X.Type())
			if !k.signed && !t.isConst() {
				unsupported("negation of symbolic unsigned value")
			}
			if !k.signed {
				return w.wrap(nil, mkNeg(t), k, "unary -")
			}
			return mkNeg(t)
		case float64:
			return -t
		}
	case token.XOR:
		t := v.(*Term)
		k, _ := intKindOf(x.X.Type())
		if k.signed {
			return mkSub(mkNeg(t), mkInt(1))
		}
		if k.bits < 64 {
			return mkSub(mkInt(int64(1)<<uint(k.bits)-1), t)
		}
		unsupported("^ on uint64")
	case token.ARROW:
		unsupported("channel receive")
	}
	unsupported("unop %s", x.Op)
	return nil
}

func (w *Worker) convert(f *frame, x *ssa.Convert, v Value, work *[]*frame) Value {
	st := f.st
	src, dst := x.X.Type().Underlying(), x.Type().Underlying()
	if dk, ok := intKindOf(dst); ok {
		switch t := v.(type) {
		case *Term:
			return w.wrap(st, t, dk, "conversion at "+w.pos(x.Pos(), f))
		case float64:
			return mkInt(int64(t))
		}
	}
	if db, ok := dst.(*types.Basic); ok {
		if db.Info()&types.IsString != 0 {
			switch t := v.(type) {
			case *Term: // rune/byte -> string
				if t.isConst() {
					return StrV{s: string(rune(t.k))}
				}
				if t.hi < 0x80 && t.lo >= 0 {
					return StrV{sym: []*Term{t}}
				}
				if w.decide(f, mkAnd(mkLe(mkInt(0), t), mkLt(t, mkInt(0x80))), work) {
					return StrV{sym: []*Term{t}}
				}
				unsupported("string(rune) of symbolic non-ASCII value")
			case SliceV:
				et := src.(*types.Slice).Elem().Underlying().(*types.Basic)
				elems := w.sliceElems(st, t)
				if et.Kind() == types.Int32 { // []rune
					var bs []byte
					for _, e := range elems {
						c := e.(*Term)
						if !c.isConst() {
							if c.lo >= 0 && c.hi < 0x80 {
								// ASCII symbolic runes
								ts := make([]*Term, len(elems))
								for i, e2 := range elems {
									c2 := e2.(*Term)
									if !(c2.lo >= 0 && c2.hi < 0x80) {
										unsupported("string([]rune) with symbolic non-ASCII")
									}
									ts[i] = c2
								}
								return strFromTerms(ts)
							}
							unsupported("string([]rune) with symbolic non-ASCII")
						}
						bs = utf8.AppendRune(bs, rune(c.k))
					}
					return StrV{s: string(bs)}
				}
				ts := make([]*Term, len(elems))
				for i, e := range elems {
					ts[i] = e.(*Term)
				}
				return strFromTerms(ts)
			case StrV:
				return t
			}
		}
		if db.Info()&types.IsFloat != 0 {
			switch t := v.(type) {
			case *Term:
				if t.isConst() {
					return float64(t.k)
				}
				unsupported("int->float of symbolic value")
			case float64:
				if db.Kind() == types.Float32 {
					return float64(float32(t))
				}
				return t
			}
		}
		if db.Kind() == types.UnsafePointer {
			return v
		}
	}
	if ds, ok := dst.(*types.Slice); ok {
		if s, ok := v.(StrV); ok {
			eb := ds.Elem().Underlying().(*types.Basic)
			if eb.Kind() == types.Int32 { // []rune(string)
				var e []Value
				if s.isConcrete() {
					for _, r := range s.s {
						e = append(e, mkInt(int64(r)))
					}
				} else {
					for _, c := range s.sym {
						if c.hi >= 0x80 {
							if !w.decide(f, mkLt(c, mkInt(0x80)), work) {
								unsupported("[]rune(string) with symbolic non-ASCII byte")
							}
						}
						e = append(e, c)
					}
				}
				id := st.alloc(&ArrV{e})
				return SliceV{obj: id, len: len(e), cap: len(e)}
			}
			bs := s.bytes()
			e := make([]Value, len(bs))
			for i := range bs {
				e[i] = bs[i]
			}
			id := st.alloc(&ArrV{e})
			return SliceV{obj: id, len: len(e), cap: len(e)}
		}
	}
	if _, ok := dst.(*types.Pointer); ok {
		return v // unsafe.Pointer -> *T
	}
	unsupported("convert %s -> %s", src, dst)
	return nil
}

func (w *Worker) sliceElems(st *State, s SliceV) []Value {
	if s.obj == 0 || s.len == 0 {
		return nil
	}
	arr := st.get(s.obj).(*ArrV)
	return arr.e[s.off : s.off+s.len]
}

// valuesEqual builds the (possibly symbolic) Go equality of two values.
func (w *Worker) valuesEqual(st *State, a, b Value) *Term {
	switch x := a.(type) {
	case *Term:
		y, ok := b.(*Term)
		if !ok {
			return tFalse
		}
		return mkEq(x, y)
	case StrV:
		y, ok := b.(StrV)
		if !ok {
			return tFalse
		}
		if x.length() != y.length() {
			return tFalse
		}
		if x.isConcrete() && y.isConcrete() {
			return mkBool(x.s == y.s)
		}
		cs := make([]*Term, x.length())
		for i := range cs {
			cs[i] = mkEq(x.at(i), y.at(i))
		}
		return mkAnd(cs...)
	case float64:
		y, ok := b.(float64)
		return mkBool(ok && x == y)
	case *StructV:
		y, ok := b.(*StructV)
		if !ok || len(x.f) != len(y.f) {
			return tFalse
		}
		cs := make([]*Term, len(x.f))
		for i := range cs {
			cs[i] = w.valuesEqual(st, x.f[i], y.f[i])
		}
		return mkAnd(cs...)
	case *ArrV:
		y, ok := b.(*ArrV)
		if !ok || len(x.e) != len(y.e) {
			return tFalse
		}
		cs := make([]*Term, len(x.e))
		for i := range cs {
			cs[i] = w.valuesEqual(st, x.e[i], y.e[i])
		}
		return mkAnd(cs...)
	case PtrV:
		y, ok := b.(PtrV)
		if !ok {
			return tFalse
		}
		if x.idx != nil || y.idx != nil {
			if x.obj != y.obj {
				return tFalse
			}
			unsupported("comparison of symbolic-index pointers")
		}
		return mkBool(samePtr(x, y))
	case IfaceV:
		y, ok := b.(IfaceV)
		if !ok {
			return tFalse
		}
		if x.t == nil || y.t == nil {
			return mkBool(x.t == nil && y.t == nil)
		}
		if !types.Identical(x.t, y.t) {
			return tFalse
		}
		if !types.Comparable(x.t) {
			unsupported("comparing uncomparable dynamic type %s (Go would panic)", x.t)
		}
		return w.valuesEqual(st, x.v, y.v)
	case *FuncV:
		y, _ := b.(*FuncV)
		if x == nil || y == nil {
			return mkBool(x == nil && y == nil)
		}
		unsupported("func comparison")
	case SliceV:
		y, _ := b.(SliceV)
		if x.obj == 0 || y.obj == 0 {
			return mkBool(x.obj == 0 && y.obj == 0)
		}
		unsupported("slice comparison")
	case MapV:
		y, _ := b.(MapV)
		if x.obj == 0 || y.obj == 0 {
			return mkBool(x.obj == 0 && y.obj == 0)
		}
		unsupported("map comparison")
	case nil:
		return mkBool(b == nil)
	case OpaqueV:
		y, ok := b.(OpaqueV)
		return mkBool(ok && x == y)
	}
	unsupported("equality on %T", a)
	return nil
}
