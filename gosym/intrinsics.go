package main

// Harness API (DESIGN §2.1): functions defined natively in zz_verif_rt.go and
// intercepted here by name.

import (
	"fmt"
	"os"
	"strconv"
	"time"
)

func concStr(v Value, what string) string {
	s, ok := v.(StrV)
	if !ok || !s.isConcrete() {
		panic(engineErr(what + ": expected concrete string"))
	}
	return s.s
}

func concInt(v Value, what string) int64 {
	t, ok := v.(*Term)
	if !ok || !t.isConst() {
		panic(engineErr(what + ": expected concrete int, got " + showValue(v, 2)))
	}
	return t.k
}

// uniqueName mirrors the native runtime: the n-th use of a name on a path gets suffix #n (n>=2).
func (w *Worker) uniqueName(st *State, name string) string {
	n := 1
	for _, t := range st.trail {
		if t == "n:"+name {
			n++
		}
	}
	st.trail = append(st.trail[:len(st.trail):len(st.trail)], "n:"+name)
	if n == 1 {
		return name
	}
	return name + "#" + strconv.Itoa(n)
}

func extendModel(st *State, name string, v int64) {
	if st.model == nil {
		return
	}
	m := &Model{vals: make(map[string]int64, len(st.model.vals)+1), uf: st.model.uf}
	for k, x := range st.model.vals {
		m.vals[k] = x
	}
	m.vals[name] = v
	st.model = m
}

func (w *Worker) freshInt(st *State, name string, lo, hi int64) *Term {
	name = w.uniqueName(st, name)
	v := mkVar(name, SInt, lo, hi)
	pick := lo
	if lo <= 0 && hi >= 0 {
		pick = 0
	}
	extendModel(st, name, pick)
	// raw (unsimplified) range constraints: the interval attached to v is what
	// lets later comparisons fold, so the solver must be told about it explicitly
	st.pc = append(st.pc[:len(st.pc):len(st.pc)],
		intern(&Term{op: OpLe, sort: SBool, args: []*Term{mkInt(lo), v}}),
		intern(&Term{op: OpLe, sort: SBool, args: []*Term{v, mkInt(hi)}}))
	w.job.noteVar(name)
	return v
}

func init() {
	reg := func(name string, h nativeFn) { natives["intrinsic:"+name] = h }

	reg("vIntIn", func(w *Worker, st *State, args []Value, fv *FuncV, depth int) []Outcome {
		name := concStr(args[0], "vIntIn name")
		lo, hi := concInt(args[1], "vIntIn lo"), concInt(args[2], "vIntIn hi")
		if lo == hi {
			w.uniqueName(st, name)
			return ret1(st, mkInt(lo))
		}
		return ret1(st, w.freshInt(st, name, lo, hi))
	})
	reg("vBool", func(w *Worker, st *State, args []Value, fv *FuncV, depth int) []Outcome {
		name := w.uniqueName(st, concStr(args[0], "vBool name"))
		v := mkVar(name, SBool, 0, 1)
		extendModel(st, name, 0)
		w.job.noteVar(name)
		return ret1(st, v)
	})
	reg("vByte", func(w *Worker, st *State, args []Value, fv *FuncV, depth int) []Outcome {
		return ret1(st, w.freshInt(st, concStr(args[0], "vByte name"), 0, 255))
	})
	reg("vBytes", func(w *Worker, st *State, args []Value, fv *FuncV, depth int) []Outcome {
		name := concStr(args[0], "vBytes name")
		n := int(concInt(args[1], "vBytes n"))
		e := make([]Value, n)
		for i := range e {
			e[i] = w.freshInt(st, fmt.Sprintf("%s[%d]", name, i), 0, 255)
		}
		id := st.alloc(&ArrV{e})
		return ret1(st, SliceV{obj: id, len: n, cap: n})
	})
	reg("vBytesIn", func(w *Worker, st *State, args []Value, fv *FuncV, depth int) []Outcome {
		name := concStr(args[0], "vBytesIn name")
		n := int(concInt(args[1], "vBytesIn n"))
		lo, hi := concInt(args[2], "lo"), concInt(args[3], "hi")
		e := make([]Value, n)
		for i := range e {
			e[i] = w.freshInt(st, fmt.Sprintf("%s[%d]", name, i), lo, hi)
		}
		id := st.alloc(&ArrV{e})
		return ret1(st, SliceV{obj: id, len: n, cap: n})
	})
	reg("vChoice", func(w *Worker, st *State, args []Value, fv *FuncV, depth int) []Outcome {
		name := w.uniqueName(st, concStr(args[0], "vChoice name"))
		n := int(concInt(args[1], "vChoice n"))
		var outs []Outcome
		for k := 0; k < n; k++ {
			s := st
			if k < n-1 {
				s = st.fork()
				w.states++
			}
			s.trail = append(s.trail[:len(s.trail):len(s.trail)], fmt.Sprintf("c:%s=%d", name, k))
			outs = append(outs, Outcome{st: s, ret: mkInt(int64(k))})
		}
		// order: k ascending
		return outs
	})
	reg("vShard", func(w *Worker, st *State, args []Value, fv *FuncV, depth int) []Outcome {
		n := int(concInt(args[0], "vShard n"))
		if w.nshards != n {
			panic(engineErr(fmt.Sprintf("vShard(%d) but registry declares %d shards", n, w.nshards)))
		}
		return ret1(st, mkInt(int64(w.shard)))
	})
	reg("vTier", func(w *Worker, st *State, args []Value, fv *FuncV, depth int) []Outcome {
		return ret1(st, mkInt(int64(w.eng.tier)))
	})
	reg("vAssume", func(w *Worker, st *State, args []Value, fv *FuncV, depth int) []Outcome {
		c := args[0].(*Term)
		if c.isTrue() {
			return ret1(st, nil)
		}
		if c.isFalse() {
			return nil
		}
		if st.model != nil && st.model.eval(c) != 0 {
			st.assume(c)
			return ret1(st, nil)
		}
		r, m := w.solver.check(append(st.pc[:len(st.pc):len(st.pc)], c), true)
		if r == Unsat {
			return nil
		}
		if r == Unknown {
			w.job.noteUnknown("assume")
		}
		st.assume(c)
		st.model = m
		return ret1(st, nil)
	})
	reg("vAssert", func(w *Worker, st *State, args []Value, fv *FuncV, depth int) []Outcome {
		label := concStr(args[0], "vAssert label")
		c := args[1].(*Term)
		w.assertion(st, label, c)
		if c.isFalse() {
			return nil
		}
		st.assumeImplied(c)
		if st.model != nil && st.model.eval(c) == 0 {
			st.model = nil
		}
		return ret1(st, nil)
	})
	reg("vCover", func(w *Worker, st *State, args []Value, fv *FuncV, depth int) []Outcome {
		label := concStr(args[0], "vCover label")
		w.job.cover(label)
		return ret1(st, nil)
	})
	reg("vObserve", func(w *Worker, st *State, args []Value, fv *FuncV, depth int) []Outcome {
		name := concStr(args[0], "vObserve name")
		v := args[1]
		if iv, ok := v.(IfaceV); ok {
			v = iv.v
		}
		st.obs = append(st.obs[:len(st.obs):len(st.obs)], obsRec{name, v})
		return ret1(st, nil)
	})
	reg("vIte", func(w *Worker, st *State, args []Value, fv *FuncV, depth int) []Outcome {
		return ret1(st, mkIte(args[0].(*Term), args[1].(*Term), args[2].(*Term)))
	})
	reg("vIteB", natives["intrinsic:vIte"])
	reg("vAnd", func(w *Worker, st *State, args []Value, fv *FuncV, depth int) []Outcome {
		return ret1(st, mkAnd(args[0].(*Term), args[1].(*Term)))
	})
	reg("vOr", func(w *Worker, st *State, args []Value, fv *FuncV, depth int) []Outcome {
		return ret1(st, mkOr(args[0].(*Term), args[1].(*Term)))
	})
	reg("vImplies", func(w *Worker, st *State, args []Value, fv *FuncV, depth int) []Outcome {
		return ret1(st, mkOr(mkNot(args[0].(*Term)), args[1].(*Term)))
	})
	reg("vMin", func(w *Worker, st *State, args []Value, fv *FuncV, depth int) []Outcome {
		a, b := args[0].(*Term), args[1].(*Term)
		return ret1(st, mkIte(mkLt(a, b), a, b))
	})
	reg("vMax", func(w *Worker, st *State, args []Value, fv *FuncV, depth int) []Outcome {
		a, b := args[0].(*Term), args[1].(*Term)
		return ret1(st, mkIte(mkLt(a, b), b, a))
	})
	reg("vPanics", func(w *Worker, st *State, args []Value, fv *FuncV, depth int) []Outcome {
		fn := args[0].(*FuncV)
		outs := w.call(st, fn, nil, depth+1, "vPanics")
		res := make([]Outcome, len(outs))
		for i, o := range outs {
			res[i] = Outcome{st: o.st, ret: mkBool(o.pan != nil)}
			if o.pan != nil {
				o.st.trail = append(o.st.trail[:len(o.st.trail):len(o.st.trail)], "panic:"+o.pan.String())
			}
		}
		return res
	})
	reg("vUF", func(w *Worker, st *State, args []Value, fv *FuncV, depth int) []Outcome {
		name := concStr(args[0], "vUF name")
		var ts []*Term
		for _, e := range w.sliceElems(st, args[1].(SliceV)) {
			ts = append(ts, e.(*Term))
		}
		return ret1(st, mkUF(name, SInt, ts))
	})
	reg("vConcrete", func(w *Worker, st *State, args []Value, fv *FuncV, depth int) []Outcome {
		t := args[0].(*Term)
		if t.isConst() {
			return ret1(st, t)
		}
		// enumerate feasible values (bounded) without re-execution: fork outcomes
		var outs []Outcome
		extra := []*Term{}
		for len(outs) <= 64 {
			r, m := w.solver.check(append(append(st.pc[:len(st.pc):len(st.pc)], extra...)), true)
			if r == Unknown {
				unsupported("vConcrete: solver unknown")
			}
			if r == Unsat {
				break
			}
			v := m.eval(t)
			s := st.fork()
			s.assume(mkEq(t, mkInt(v)))
			s.model = m
			outs = append(outs, Outcome{st: s, ret: mkInt(v)})
			extra = append(extra, mkNot(mkEq(t, mkInt(v))))
		}
		if len(outs) > 64 {
			panic(BoundExceeded{"vConcrete: more than 64 values"})
		}
		return outs
	})
	reg("vIsSymbolic", func(w *Worker, st *State, args []Value, fv *FuncV, depth int) []Outcome {
		return ret1(st, tTrue)
	})
	reg("vLog", func(w *Worker, st *State, args []Value, fv *FuncV, depth int) []Outcome {
		if w.trace || w.eng.verbose {
			fmt.Printf("vLog: %s\n", showValue(args[0], 3))
		}
		return ret1(st, nil)
	})
}

// assertion discharges the obligation pc => c.
func (w *Worker) assertion(st *State, label string, c *Term) {
	j := w.job
	j.Obligations++
	if c.isTrue() {
		j.Discharged++
		j.Trivial++
		return
	}
	neg := mkNot(c)
	q := append(st.pc[:len(st.pc):len(st.pc)], neg)
	r, m := w.solver.check(q, true)
	switch r {
	case Unsat:
		j.Discharged++
		j.noteProved(label, st, q)
		// thorough tier: a sample of the discharged obligations is re-decided by two other
		// solvers on the standalone script; a disagreement is an engine/solver defect
		if w.eng.tier == 1 && j.CrossChecked < 20 && !c.isConst() {
			j.CrossChecked++
			script := standaloneScript(q)
			for _, alt := range [][]string{{"z3", "-in", "-T:30"}, {"cvc5", "--lang=smt2", "--tlimit=30000"}} {
				out, err := oneShot(alt, script, 40*time.Second)
				switch {
				case err == nil && out == "unsat":
					j.CrossAgree++
				case err == nil && out == "sat":
					j.Disagree = append(j.Disagree, alt[0]+" says sat for obligation "+label)
				default:
					j.CrossInconclusive++
				}
			}
		}
	case Unknown:
		if d := os.Getenv("VERIF_DUMP_UNKNOWN"); d != "" {
			os.WriteFile(fmt.Sprintf("%s/unknown-%s-%d.smt2", d, label, j.Obligations), []byte(standaloneScript(q)), 0o644)
		}
		j.noteUnknown("assert " + label)
		j.Inconclusive = append(j.Inconclusive, label)
	case Sat:
		// known-finding refinement: does every counterexample go through a listed site?
		var hit []string
		if len(st.sites) > 0 {
			var excl []*Term
			for id, flag := range st.sites {
				if w.eng.knownFor(id, label) {
					excl = append(excl, mkNot(flag))
					hit = append(hit, id)
				}
			}
			if len(excl) > 0 {
				r2, m2 := w.solver.check(append(q[:len(q):len(q)], excl...), true)
				if r2 == Sat {
					m, hit = m2, nil
				} else if r2 == Unknown {
					j.noteUnknown("known-site refinement " + label)
				}
			}
		}
		j.counterexample(w, label, st, m, hit)
	}
}
