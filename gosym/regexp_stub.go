package main

// regexp stub (DESIGN §2.5): (a) concrete pattern and subject run the real
// regexp; (b) a symbolic pattern compiles or fails nondeterministically and
// MatchString is an uninterpreted predicate of (regexp, subject); (c) Match's
// fixed-width class patterns are handled in regexp_match.go.

import (
	"fmt"
	"regexp"
	"strings"
)

type reObj struct {
	re      *regexp.Regexp // concrete compiled
	pattern StrV           // source pattern (possibly symbolic)
	id      int
	fixed   *reFixed // fixed-width class model (symbolic literal bytes), see regexp_match.go
}

func (w *Worker) newRegexp(st *State, r *reObj) PtrV {
	id := st.alloc(OpaqueV{kind: "regexp", v: r})
	return PtrV{obj: id}
}

func reOf(st *State, v Value) *reObj {
	p := v.(PtrV)
	if p.isNil() {
		return nil
	}
	o, ok := st.get(p.obj).(OpaqueV)
	if !ok || o.kind != "regexp" {
		unsupported("regexp method on non-stub regexp object")
	}
	return o.v.(*reObj)
}

var reCounter int

func strKey(s StrV) string {
	if s.isConcrete() {
		return fmt.Sprintf("%q", s.s)
	}
	var sb strings.Builder
	for _, t := range s.sym {
		fmt.Fprintf(&sb, "%d.", t.id)
	}
	return sb.String()
}

func init() {
	compile := func(must bool) nativeFn {
		return func(w *Worker, st *State, args []Value, fv *FuncV, depth int) []Outcome {
			pat := args[0].(StrV)
			if pat.isConcrete() {
				re, err := regexp.Compile(pat.s)
				if err != nil {
					if must {
						return []Outcome{{st: st, pan: &PanicV{runtime: "", val: IfaceV{}, site: "regexp.MustCompile: " + err.Error()}}}
					}
					e := w.newError(st, StrV{s: err.Error()}, depth)
					return []Outcome{{st: e.st, ret: TupleV{PtrV{}, e.ret}}}
				}
				p := w.newRegexp(st, &reObj{re: re, pattern: pat})
				if must {
					return ret1(st, p)
				}
				return ret1(st, TupleV{p, IfaceV{}})
			}
			if must {
				return w.mustCompileSymbolic(st, pat, depth)
			}
			// symbolic pattern: succeeds or fails nondeterministically
			ok := st.fork()
			w.states++
			ok.trail = append(ok.trail[:len(ok.trail):len(ok.trail)], "re:compiles")
			p := w.newRegexp(ok, &reObj{pattern: pat})
			bad := st
			bad.trail = append(bad.trail[:len(bad.trail):len(bad.trail)], "re:rejects")
			e := w.newError(bad, StrV{s: "<regexp syntax error>"}, depth)
			return []Outcome{{st: ok, ret: TupleV{p, IfaceV{}}}, {st: e.st, ret: TupleV{PtrV{}, e.ret}}}
		}
	}
	natives["regexp.Compile"] = compile(false)
	natives["regexp.MustCompile"] = compile(true)
	natives["(*regexp.Regexp).MatchString"] = func(w *Worker, st *State, args []Value, fv *FuncV, depth int) []Outcome {
		r := reOf(st, args[0])
		s := args[1].(StrV)
		if r.re != nil && s.isConcrete() {
			return ret1(st, mkBool(r.re.MatchString(s.s)))
		}
		if r.re != nil && r.pattern.s == "" {
			return ret1(st, tTrue) // the empty pattern matches everything
		}
		// a literal pattern (no metacharacters) is decided exactly: substring search over the symbolic bytes
		if r.re != nil && regexp.QuoteMeta(r.pattern.s) == r.pattern.s {
			pat := r.pattern.s
			var alts []*Term
			for i := 0; i+len(pat) <= s.length(); i++ {
				cs := make([]*Term, len(pat))
				for j := 0; j < len(pat); j++ {
					cs[j] = mkEq(s.at(i+j), mkInt(int64(pat[j])))
				}
				alts = append(alts, mkAnd(cs...))
			}
			return ret1(st, mkOr(alts...))
		}
		// otherwise: an uninterpreted predicate of (pattern, value bytes)
		v := mkUF("rematch!"+strKey(r.pattern)+fmt.Sprintf("!%d", s.length()), SBool, s.bytes())
		return ret1(st, v)
	}
	natives["(*regexp.Regexp).String"] = func(w *Worker, st *State, args []Value, fv *FuncV, depth int) []Outcome {
		return ret1(st, reOf(st, args[0]).pattern)
	}
}
