package main

// encoding/json.Marshal: not interpreted (reflection); modelled by an injective structural encoding of the
// value (DESIGN §2.5).  The real encoding is injective on the values gts marshals (cache key payloads: strings,
// booleans, integers, byte slices, string lists, nested in [2]interface{} tuples); the model keeps exactly
// that: two values get the same bytes iff they are structurally equal.  It is NOT JSON text.

import (
	"fmt"
	"sort"
	"strconv"
)

func init() {
	natives["encoding/json.Marshal"] = func(w *Worker, st *State, args []Value, fv *FuncV, depth int) []Outcome {
		var out []Value
		lit := func(s string) {
			for i := 0; i < len(s); i++ {
				out = append(out, mkInt(int64(s[i])))
			}
		}
		var enc func(v Value, d int)
		enc = func(v Value, d int) {
			if d > 8 {
				unsupported("json.Marshal model: nesting deeper than 8")
			}
			switch x := v.(type) {
			case nil:
				lit("n")
			case IfaceV:
				if x.t == nil {
					lit("n")
				} else {
					enc(x.v, d+1)
				}
			case StrV:
				lit("s" + strconv.Itoa(x.length()) + ":")
				for _, b := range x.bytes() {
					out = append(out, b)
				}
			case *Term:
				switch {
				case x.sort == SBool:
					out = append(out, mkIte(x, mkInt('t'), mkInt('f')))
				case x.isConst():
					lit("i" + strconv.FormatInt(x.k, 10) + ";")
				case x.lo >= 0 && x.hi <= 255:
					out = append(out, mkInt('#'), x)
				default:
					unsupported("json.Marshal model: symbolic integer outside the byte range")
				}
			case SliceV:
				if x.obj == 0 {
					lit("n")
					return
				}
				elems := w.sliceElems(st, x)
				lit("[" + strconv.Itoa(len(elems)) + ":")
				for _, e := range elems {
					enc(e, d+1)
				}
				lit("]")
			case *ArrV:
				lit("[" + strconv.Itoa(len(x.e)) + ":")
				for _, e := range x.e {
					enc(e, d+1)
				}
				lit("]")
			case *StructV:
				lit("{")
				for _, e := range x.f {
					enc(e, d+1)
				}
				lit("}")
			case MapV:
				// a map is marshalled with its keys sorted: equal maps give equal bytes whatever the insertion order
				// (that is what the real encoder does, and what makes a map-valued key component order-blind)
				if x.obj == 0 {
					lit("n")
					return
				}
				mo, ok := st.get(x.obj).(*MapObj)
				if !ok {
					unsupported("json.Marshal model: map object")
				}
				type kv struct {
					k string
					v Value
				}
				var kvs []kv
				for i, k := range mo.keys {
					ks, ok := k.(StrV)
					if !ok || !ks.isConcrete() {
						unsupported("json.Marshal model: map key that is not a concrete string")
					}
					kvs = append(kvs, kv{ks.s, mo.vals[i]})
				}
				sort.Slice(kvs, func(i, j int) bool { return kvs[i].k < kvs[j].k })
				lit("m" + strconv.Itoa(len(kvs)) + ":")
				for _, e := range kvs {
					lit("s" + strconv.Itoa(len(e.k)) + ":" + e.k)
					enc(e.v, d+1)
				}
				lit("}")
			case PtrV:
				if x.isNil() {
					lit("n")
				} else {
					enc(st.load(x), d+1)
				}
			default:
				unsupported("json.Marshal model: value of kind %s", fmt.Sprintf("%T", v))
			}
		}
		enc(args[0], 0)
		id := st.alloc(&ArrV{out})
		return ret1(st, TupleV{SliceV{obj: id, len: len(out), cap: len(out)}, IfaceV{}})
	}
}
