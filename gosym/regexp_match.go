package main

// mustCompileSymbolic: placeholder until the fixed-width class model for
// gts.Match is built (C18 b).
func (w *Worker) mustCompileSymbolic(st *State, pat StrV, depth int) []Outcome {
	unsupported("regexp.MustCompile of a symbolic pattern (Match model not built yet)")
	return nil
}
