package main

// Fixed-width class model for the patterns gts.Match builds (DESIGN §2.5 (b)):
// a concatenation of single-byte matchers — a bracket class of literal bytes,
// `.`, a literal byte, or an escaped literal byte — compiled from a pattern
// whose structure is concrete on the path while some literal bytes may be
// symbolic.  FindAllIndex is the leftmost, non-overlapping scan.  Also the
// index/suffixarray contract used by gts.Search.

import (
	"regexp"
)

type reElem struct {
	any   bool
	class []byte // concrete set
	lit   *Term  // literal byte (possibly symbolic)
}

type reFixed struct {
	elems []reElem
}

const reSpecial = `\.+*?()|[]{}^$`

func isSpecialByte(b byte) bool {
	for i := 0; i < len(reSpecial); i++ {
		if reSpecial[i] == b {
			return true
		}
	}
	return false
}

// parseFixed parses a pattern made of [class] . literal \literal elements.
func parseFixed(pat StrV) ([]reElem, []int, bool) {
	bs := pat.bytes()
	var elems []reElem
	var unescapedSym []int // element indexes whose literal is a symbolic, unescaped byte
	i := 0
	for i < len(bs) {
		c := bs[i]
		if !c.isConst() {
			unescapedSym = append(unescapedSym, len(elems))
			elems = append(elems, reElem{lit: c})
			i++
			continue
		}
		switch byte(c.k) {
		case '[':
			j := i + 1
			var set []byte
			for j < len(bs) && !(bs[j].isConst() && bs[j].k == ']') {
				if !bs[j].isConst() || isSpecialByte(byte(bs[j].k)) {
					return nil, nil, false
				}
				set = append(set, byte(bs[j].k))
				j++
			}
			if j >= len(bs) {
				return nil, nil, false
			}
			elems = append(elems, reElem{class: set})
			i = j + 1
		case '.':
			elems = append(elems, reElem{any: true})
			i++
		case '\\':
			if i+1 >= len(bs) {
				return nil, nil, false
			}
			elems = append(elems, reElem{lit: bs[i+1]})
			i += 2
		default:
			if isSpecialByte(byte(c.k)) {
				return nil, nil, false
			}
			elems = append(elems, reElem{lit: c})
			i++
		}
	}
	return elems, unescapedSym, true
}

func (w *Worker) mustCompileSymbolic(st *State, pat StrV, depth int) []Outcome {
	elems, unesc, ok := parseFixed(pat)
	if !ok {
		unsupported("regexp.MustCompile of a symbolic pattern outside the fixed-width class fragment")
	}
	var outs []Outcome
	cur := st
	// an unescaped symbolic byte may be regexp syntax: `(` makes MustCompile panic (decided
	// exactly); the other metacharacters change the meaning of the pattern and are cut
	for _, ei := range unesc {
		c := elems[ei].lit
		paren := mkEq(c, mkInt('('))
		if ft, mt, ff, mf := w.feasible(cur, paren); ft {
			ps := cur
			if ff {
				ps = cur.fork()
				w.states++
			}
			ps.assume(paren)
			ps.model = mt
			outs = append(outs, Outcome{st: ps, pan: &PanicV{val: IfaceV{}, site: "regexp.MustCompile: error parsing regexp: missing closing ): `(`"}})
			if !ff {
				return outs
			}
			cur.assume(mkNot(paren))
			cur.model = mf
		}
		var sp []*Term
		for i := 0; i < len(reSpecial); i++ {
			sp = append(sp, mkEq(c, mkInt(int64(reSpecial[i]))))
		}
		special := mkOr(sp...)
		ft, mt, ff, mf := w.feasible(cur, special)
		if ft {
			cs := cur
			if ff {
				cs = cur.fork()
				w.states++
			}
			cs.assume(special)
			cs.model = mt
			outs = append(outs, Outcome{st: cs, pan: &PanicV{runtime: "CUT: a symbolic query byte reaches the pattern unescaped and is a regexp metacharacter other than `(`", site: "regexp.MustCompile"}})
			if !ff {
				return outs
			}
			cur.assume(mkNot(special))
			cur.model = mf
		}
	}
	p := w.newRegexp(cur, &reObj{pattern: pat, fixed: &reFixed{elems: elems}})
	return append(outs, Outcome{st: cur, ret: p})
}

func elemMatches(e reElem, b *Term) *Term {
	switch {
	case e.any:
		return mkNot(mkEq(b, mkInt('\n')))
	case e.class != nil:
		var alts []*Term
		for _, c := range e.class {
			alts = append(alts, mkEq(b, mkInt(int64(c))))
		}
		return mkOr(alts...)
	default:
		return mkEq(b, e.lit)
	}
}

// findAllFixed: leftmost non-overlapping scan, forking on every match decision.
func (w *Worker) findAllFixed(st *State, fx *reFixed, subj []*Term, pos int, acc [][2]int) []struct {
	st  *State
	res [][2]int
} {
	type outT = struct {
		st  *State
		res [][2]int
	}
	m := len(fx.elems)
	if m == 0 || pos+m > len(subj) {
		return []outT{{st, acc}}
	}
	cs := make([]*Term, m)
	for j := 0; j < m; j++ {
		cs[j] = elemMatches(fx.elems[j], subj[pos+j])
	}
	c := mkAnd(cs...)
	if c.isTrue() {
		return w.findAllFixed(st, fx, subj, pos+m, append(acc[:len(acc):len(acc)], [2]int{pos, pos + m}))
	}
	if c.isFalse() {
		return w.findAllFixed(st, fx, subj, pos+1, acc)
	}
	ft, mt, ff, mf := w.feasible(st, c)
	var outs []outT
	if ft {
		s := st
		if ff {
			s = st.fork()
			w.states++
		}
		s.assume(c)
		s.model = mt
		outs = append(outs, w.findAllFixed(s, fx, subj, pos+m, append(acc[:len(acc):len(acc)], [2]int{pos, pos + m}))...)
	}
	if ff {
		st.assume(mkNot(c))
		st.model = mf
		outs = append(outs, w.findAllFixed(st, fx, subj, pos+1, acc)...)
	}
	return outs
}

func init() {
	natives["regexp.QuoteMeta"] = func(w *Worker, st *State, args []Value, fv *FuncV, depth int) []Outcome {
		s := args[0].(StrV)
		if s.isConcrete() {
			return ret1(st, StrV{s: regexp.QuoteMeta(s.s)})
		}
		// fork per symbolic byte on "is a metacharacter"
		type part struct {
			st *State
			bs []*Term
		}
		parts := []part{{st, nil}}
		for _, b := range s.bytes() {
			var next []part
			for _, p := range parts {
				if b.isConst() {
					if isSpecialByte(byte(b.k)) {
						p.bs = append(p.bs[:len(p.bs):len(p.bs)], mkInt('\\'), b)
					} else {
						p.bs = append(p.bs[:len(p.bs):len(p.bs)], b)
					}
					next = append(next, p)
					continue
				}
				var sp []*Term
				for i := 0; i < len(reSpecial); i++ {
					sp = append(sp, mkEq(b, mkInt(int64(reSpecial[i]))))
				}
				special := mkOr(sp...)
				ft, mt, ff, mf := w.feasible(p.st, special)
				if ft {
					s2 := p.st
					if ff {
						s2 = p.st.fork()
						w.states++
					}
					s2.assume(special)
					s2.model = mt
					next = append(next, part{s2, append(p.bs[:len(p.bs):len(p.bs)], mkInt('\\'), b)})
				}
				if ff {
					p.st.assume(mkNot(special))
					p.st.model = mf
					next = append(next, part{p.st, append(p.bs[:len(p.bs):len(p.bs)], b)})
				}
			}
			parts = next
		}
		var outs []Outcome
		for _, p := range parts {
			outs = append(outs, Outcome{st: p.st, ret: strFromTerms(p.bs)})
		}
		return outs
	}
	natives["(*regexp.Regexp).FindAllIndex"] = func(w *Worker, st *State, args []Value, fv *FuncV, depth int) []Outcome {
		r := reOf(st, args[0])
		var subj []*Term
		for _, e := range w.sliceElems(st, args[1].(SliceV)) {
			subj = append(subj, e.(*Term))
		}
		fx := r.fixed
		if fx == nil {
			if r.re == nil {
				unsupported("FindAllIndex on a symbolic regexp")
			}
			// concrete pattern: try the fixed-width fragment, else require a concrete subject
			if elems, unesc, ok := parseFixed(r.pattern); ok && len(unesc) == 0 {
				fx = &reFixed{elems: elems}
			} else {
				bs := make([]byte, len(subj))
				for i, t := range subj {
					if !t.isConst() {
						unsupported("FindAllIndex: pattern %q outside the fixed-width fragment with a symbolic subject", r.pattern.s)
					}
					bs[i] = byte(t.k)
				}
				var res [][2]int
				for _, p := range r.re.FindAllIndex(bs, -1) {
					res = append(res, [2]int{p[0], p[1]})
				}
				return ret1(st, w.pairsValue(st, res))
			}
		}
		var outs []Outcome
		for _, o := range w.findAllFixed(st, fx, subj, 0, nil) {
			outs = append(outs, Outcome{st: o.st, ret: w.pairsValue(o.st, o.res)})
		}
		return outs
	}

	// index/suffixarray: New(data) / Lookup(sep, -1) = all occurrence offsets (here: descending order,
	// the contract leaves the order open and gts.Search sorts them)
	natives["index/suffixarray.New"] = func(w *Worker, st *State, args []Value, fv *FuncV, depth int) []Outcome {
		data := append([]Value{}, w.sliceElems(st, args[0].(SliceV))...)
		id := st.alloc(&ArrV{data})
		return ret1(st, PtrV{obj: id})
	}
	natives["(*index/suffixarray.Index).Lookup"] = func(w *Worker, st *State, args []Value, fv *FuncV, depth int) []Outcome {
		p := args[0].(PtrV)
		data := st.get(p.obj).(*ArrV).e
		sep := w.sliceElems(st, args[1].(SliceV))
		n := concInt(args[2], "suffixarray Lookup n")
		if n >= 0 {
			unsupported("suffixarray.Lookup with n >= 0")
		}
		type part struct {
			st  *State
			occ []int
		}
		parts := []part{{st, nil}}
		if len(sep) == 0 {
			return ret1(st, SliceV{})
		}
		for i := 0; i+len(sep) <= len(data); i++ {
			cs := make([]*Term, len(sep))
			for j := range sep {
				cs[j] = mkEq(data[i+j].(*Term), sep[j].(*Term))
			}
			c := mkAnd(cs...)
			var next []part
			for _, pt := range parts {
				if c.isTrue() {
					next = append(next, part{pt.st, append(pt.occ[:len(pt.occ):len(pt.occ)], i)})
					continue
				}
				if c.isFalse() {
					next = append(next, pt)
					continue
				}
				ft, mt, ff, mf := w.feasible(pt.st, c)
				if ft {
					s2 := pt.st
					if ff {
						s2 = pt.st.fork()
						w.states++
					}
					s2.assume(c)
					s2.model = mt
					next = append(next, part{s2, append(pt.occ[:len(pt.occ):len(pt.occ)], i)})
				}
				if ff {
					pt.st.assume(mkNot(c))
					pt.st.model = mf
					next = append(next, part{pt.st, pt.occ})
				}
			}
			parts = next
		}
		var outs []Outcome
		for _, pt := range parts {
			if len(pt.occ) == 0 {
				outs = append(outs, Outcome{st: pt.st, ret: SliceV{}})
				continue
			}
			e := make([]Value, len(pt.occ))
			for k, o := range pt.occ {
				e[len(pt.occ)-1-k] = mkInt(int64(o)) // descending: the order is unspecified
			}
			id := pt.st.alloc(&ArrV{e})
			outs = append(outs, Outcome{st: pt.st, ret: SliceV{obj: id, len: len(e), cap: len(e)}})
		}
		return outs
	}
}

// pairsValue builds a [][]int value.
func (w *Worker) pairsValue(st *State, res [][2]int) Value {
	if len(res) == 0 {
		return SliceV{}
	}
	outer := make([]Value, len(res))
	for i, p := range res {
		id := st.alloc(&ArrV{[]Value{mkInt(int64(p[0])), mkInt(int64(p[1]))}})
		outer[i] = SliceV{obj: id, len: 2, cap: 2}
	}
	id := st.alloc(&ArrV{outer})
	return SliceV{obj: id, len: len(outer), cap: len(outer)}
}
