package main

import (
	"fmt"
	"go/constant"
	"go/token"
	"go/types"
	"os"
	"runtime"
	"strconv"
	"strings"
	"sync"
	"sync/atomic"
	"time"

	"golang.org/x/tools/go/ssa"
)

type Outcome struct {
	st  *State
	ret Value
	pan *PanicV
}

type deferRec struct {
	fn   Value // *FuncV or builtin
	args []Value
	call *ssa.CallCommon
}

type frame struct {
	fn     *ssa.Function
	info   *fnInfo
	env    []Value
	block  *ssa.BasicBlock
	prev   *ssa.BasicBlock
	ip     int
	st     *State
	defers []deferRec
	pan    *PanicV // set while unwinding
	depth  int
}

type fnInfo struct {
	idx map[ssa.Value]int
	n   int
}

var fnInfos sync.Map

func infoFor(fn *ssa.Function) *fnInfo {
	if v, ok := fnInfos.Load(fn); ok {
		return v.(*fnInfo)
	}
	fi := &fnInfo{idx: map[ssa.Value]int{}}
	add := func(v ssa.Value) { fi.idx[v] = fi.n; fi.n++ }
	for _, p := range fn.Params {
		add(p)
	}
	for _, p := range fn.FreeVars {
		add(p)
	}
	for _, b := range fn.Blocks {
		for _, in := range b.Instrs {
			if v, ok := in.(ssa.Value); ok {
				add(v)
			}
		}
	}
	fnInfos.Store(fn, fi)
	return fi
}

type BoundExceeded struct{ what string }

// PathBound: one path (not the job) ran more than pathSteps instructions — the unwinding assertion of the
// engine.  The driver asks the solver for an input of that path and the input is run natively under a
// time limit: a native hang is a termination violation, a native run that ends is a path too long for the bound.
type PathBound struct{ st *State }

// Worker executes one job: its own solver, budgets and result records.
type Worker struct {
	eng           *Engine
	solver        *Solver
	job           *JobResult
	shard         int
	nshards       int
	maxSteps      int64
	steps         int64
	deadline      time.Time
	maxDepth      int
	fnSeen        map[*ssa.Function]int
	noMerge       bool
	pathSteps     int
	mergeConcrete bool
	nameCtr       map[string]int
	prefix        []int // pre-assigned choices (unused in shard mode)
	states        int64
	branches      int64
	merges        int64
	trace         bool
	stack         []string
	panicStack    []string
	profile       map[string]int
	scoped        map[string]*ssa.Function
	curInstr      string
}

func (f *frame) clone() *frame {
	g := *f
	g.env = make([]Value, len(f.env))
	copy(g.env, f.env)
	g.defers = append([]deferRec(nil), f.defers...)
	g.st = f.st.fork()
	return &g
}

func (w *Worker) tick() {
	w.steps++
	if w.steps > w.maxSteps {
		panic(BoundExceeded{fmt.Sprintf("step budget %d", w.maxSteps)})
	}
	if w.steps&0xfff == 0 && time.Now().After(w.deadline) {
		panic(BoundExceeded{"wall-clock budget"})
	}
	if w.steps&0x3ffff == 0 && memOver() {
		panic(BoundExceeded{"memory budget"})
	}
}

// memOver: the process heap is over the budget (VERIF_MEM_GB, default 20).  Sampled by a
// background goroutine once a second; every job that notices ends as "bound: memory budget"
// (inconclusive), so that a path explosion never takes down the whole check by OOM.
var memFlag int32
var memOnce sync.Once

func memOver() bool {
	memOnce.Do(func() {
		limit := uint64(20) << 30
		if s := os.Getenv("VERIF_MEM_GB"); s != "" {
			if n, err := strconv.Atoi(s); err == nil && n > 0 {
				limit = uint64(n) << 30
			}
		}
		go func() {
			var ms runtime.MemStats
			for {
				runtime.ReadMemStats(&ms)
				if ms.HeapAlloc > limit {
					atomic.StoreInt32(&memFlag, 1)
				} else if ms.HeapAlloc < limit/2 {
					atomic.StoreInt32(&memFlag, 0)
				}
				time.Sleep(time.Second)
			}
		}()
	})
	return atomic.LoadInt32(&memFlag) != 0
}

func (f *frame) get(w *Worker, v ssa.Value) Value {
	switch x := v.(type) {
	case *ssa.Const:
		return constValue(x)
	case *ssa.Global:
		id, ok := w.eng.globals[x]
		if !ok {
			unsupported("global %s not registered", x)
		}
		return PtrV{obj: id}
	case *ssa.Function:
		return &FuncV{fn: x}
	case *ssa.Builtin:
		return &FuncV{native: "builtin:" + x.Name()}
	}
	i, ok := f.info.idx[v]
	if !ok {
		panic(engineErr(fmt.Sprintf("no slot for %s in %s", v.Name(), f.fn)))
	}
	return f.env[i]
}

func (f *frame) set(v ssa.Value, val Value) {
	f.env[f.info.idx[v]] = val
}

func constValue(c *ssa.Const) Value {
	t := c.Type()
	if c.Value == nil {
		return zeroValue(t)
	}
	switch u := t.Underlying().(type) {
	case *types.Basic:
		switch {
		case u.Info()&types.IsBoolean != 0:
			return mkBool(constant.BoolVal(c.Value))
		case u.Info()&types.IsInteger != 0:
			if i, ok := constant.Int64Val(constant.ToInt(c.Value)); ok {
				return mkInt(i)
			}
			if ui, ok := constant.Uint64Val(constant.ToInt(c.Value)); ok {
				// large unsigned: keep as wrapped int64 is wrong under Int encoding
				return OpaqueV{kind: "wide-uint64", v: ui}
			}
			unsupported("integer constant %s", c.Value)
		case u.Info()&types.IsString != 0:
			return StrV{s: constant.StringVal(c.Value)}
		case u.Info()&types.IsFloat != 0:
			fv, _ := constant.Float64Val(c.Value)
			return fv
		}
	case *types.Interface:
		// typed constant converted? not produced by ssa
	}
	unsupported("constant %s of type %s", c.Value, t)
	return nil
}

// ---- calling ---------------------------------------------------------------

func (w *Worker) call(st *State, fv *FuncV, args []Value, depth int, site string) []Outcome {
	if fv == nil {
		return []Outcome{{st: st, pan: &PanicV{runtime: "nil func call", site: site}}}
	}
	if fv.native != "" {
		h, ok := natives[fv.native]
		if !ok {
			unsupported("native %s", fv.native)
		}
		return h(w, st, args, fv, depth)
	}
	fn := fv.fn
	name := fn.String()
	if h, ok := natives[name]; ok {
		return h(w, st, args, fv, depth)
	}
	if r, ok := w.scoped[name]; ok && r != fn {
		fn = r
	} else if r, ok := w.eng.redirect[name]; ok {
		fn = r
	} else if w.eng.isIntrinsic(fn) {
		h, ok := natives["intrinsic:"+fn.Name()]
		if !ok {
			unsupported("harness intrinsic %s not implemented", fn.Name())
		}
		return h(w, st, args, fv, depth)
	}
	if fn.Synthetic == "package initializer" && fn.Pkg != nil && !w.eng.initAllowed(fn.Pkg.Pkg.Path()) {
		return ret1(st, nil)
	}
	if fn.Blocks == nil {
		unsupported("function without body: %s (called at %s)", name, site)
	}
	if depth > w.maxDepth {
		panic(BoundExceeded{fmt.Sprintf("call depth %d at %s", depth, name)})
	}
	if w.fnSeen != nil {
		w.fnSeen[fn]++
	}
	if len(w.eng.siteFns) > 0 {
		if id, ok := w.eng.siteFns[fn]; ok {
			if st.sites == nil {
				st.sites = map[string]*Term{}
			}
			st.sites[id] = tTrue
		}
	}
	w.stack = append(w.stack, name)
	defer func() {
		if r := recover(); r != nil {
			if w.panicStack == nil {
				w.panicStack = append([]string{}, w.stack...)
			}
			w.stack = w.stack[:len(w.stack)-1]
			panic(r)
		}
		w.stack = w.stack[:len(w.stack)-1]
	}()
	fi := infoFor(fn)
	f := &frame{fn: fn, info: fi, env: make([]Value, fi.n), block: fn.Blocks[0], st: st, depth: depth}
	if len(args) != len(fn.Params) {
		panic(engineErr(fmt.Sprintf("arity mismatch calling %s: %d vs %d", name, len(args), len(fn.Params))))
	}
	for i, p := range fn.Params {
		f.env[fi.idx[p]] = args[i]
	}
	for i, p := range fn.FreeVars {
		f.env[fi.idx[p]] = fv.free[i]
	}
	base := st.nextID
	basePC := len(st.pc)
	mark := len(st.dirty)
	var outs []Outcome
	work := []*frame{f}
	for len(work) > 0 {
		cur := work[len(work)-1]
		work = work[:len(work)-1]
		w.run(cur, &work, &outs)
	}
	if len(outs) > 1 && !w.noMerge && !w.eng.isHarnessFn(fn) {
		outs = w.mergeOutcomes(outs, base, basePC, mark)
	}
	return outs
}

func (w *Worker) run(f *frame, work *[]*frame, outs *[]Outcome) {
	for {
		if f.pan != nil && strings.HasPrefix(f.pan.runtime, "CUT:") {
			// deliberate cut: the path is dropped and recorded as outside the claim
			w.job.cut(f.pan.runtime[5:])
			return
		}
		if f.pan != nil {
			// unwinding: run remaining defers then emit the panic
			if w.runDefers(f, work) {
				continue
			}
			*outs = append(*outs, Outcome{st: f.st, pan: f.pan})
			return
		}
		if f.ip >= len(f.block.Instrs) {
			panic(engineErr("fell off block in " + f.fn.String()))
		}
		in := f.block.Instrs[f.ip]
		w.tick()
		f.st.steps++
		if f.st.steps > w.pathSteps && w.pathSteps > 0 {
			panic(PathBound{st: f.st})
		}
		if w.eng.verbose {
			w.curInstr = in.String()
		}
		if w.trace {
			fmt.Printf("%*s%s: %s\n", f.depth, "", f.fn.Name(), in)
		}
		switch x := in.(type) {
		case *ssa.Return:
			var ret Value
			switch len(x.Results) {
			case 0:
			case 1:
				ret = f.get(w, x.Results[0])
			default:
				t := make(TupleV, len(x.Results))
				for i, r := range x.Results {
					t[i] = f.get(w, r)
				}
				ret = t
			}
			*outs = append(*outs, Outcome{st: f.st, ret: ret})
			return
		case *ssa.Jump:
			f.prev, f.block, f.ip = f.block, f.block.Succs[0], 0
			continue
		case *ssa.If:
			c := f.get(w, x.Cond).(*Term)
			var taken bool
			if c.isConst() {
				taken = c.isTrue()
			} else {
				taken = w.decide(f, c, work)
			}
			w.noteSite(f, x, taken)
			if taken {
				f.prev, f.block, f.ip = f.block, f.block.Succs[0], 0
			} else {
				f.prev, f.block, f.ip = f.block, f.block.Succs[1], 0
			}
			continue
		case *ssa.Panic:
			v := f.get(w, x.X)
			f.pan = &PanicV{val: v, site: w.pos(x.Pos(), f)}
			continue
		case *ssa.RunDefers:
			if w.runDefers(f, work) {
				continue // re-enter: more defers or panic state changed
			}
			f.ip++
			continue
		case *ssa.Defer:
			d := deferRec{call: &x.Call}
			d.fn, d.args = w.prepareCall(f, &x.Call)
			f.defers = append(f.defers, d)
			f.ip++
			continue
		case *ssa.Go:
			unsupported("go statement in %s", f.fn)
		case *ssa.Call:
			fv, args := w.prepareCall(f, &x.Call)
			if fv == nil {
				// nil interface receiver or nil func
				f.pan = &PanicV{runtime: "nil pointer dereference (call)", site: w.pos(x.Pos(), f)}
				continue
			}
			res := w.call(f.st, fv.(*FuncV), args, f.depth+1, w.pos(x.Pos(), f))
			if len(res) == 0 {
				return // all paths infeasible / assumed away
			}
			for i := 1; i < len(res); i++ {
				g := *f
				g.env = make([]Value, len(f.env))
				copy(g.env, f.env)
				g.defers = append([]deferRec(nil), f.defers...)
				g.st = res[i].st
				if res[i].pan != nil {
					g.pan = res[i].pan
				} else {
					g.set(x, res[i].ret)
					g.ip++
				}
				*work = append(*work, &g)
			}
			f.st = res[0].st
			if res[0].pan != nil {
				f.pan = res[0].pan
				continue
			}
			f.set(x, res[0].ret)
			f.ip++
			continue
		}
		// non-control instructions
		if p := w.step(f, in, work); p != nil {
			f.pan = p
			continue
		}
		f.ip++
	}
}

// runDefers pops and runs one deferred call; returns true if the frame should
// re-enter its main loop (more defers pending or state changed).
func (w *Worker) runDefers(f *frame, work *[]*frame) bool {
	if len(f.defers) == 0 {
		return false
	}
	d := f.defers[len(f.defers)-1]
	f.defers = f.defers[:len(f.defers)-1]
	res := w.call(f.st, d.fn.(*FuncV), d.args, f.depth+1, "defer in "+f.fn.Name())
	if len(res) == 0 {
		// path vanished
		f.defers = nil
		f.pan = nil
		// emulate termination: mark by making block end -> handled by caller via special flag
		panic(engineErr("all outcomes of deferred call vanished"))
	}
	for i := 1; i < len(res); i++ {
		g := *f
		g.env = make([]Value, len(f.env))
		copy(g.env, f.env)
		g.defers = append([]deferRec(nil), f.defers...)
		g.st = res[i].st
		if res[i].pan != nil {
			g.pan = res[i].pan
		}
		*work = append(*work, &g)
	}
	f.st = res[0].st
	if res[0].pan != nil {
		f.pan = res[0].pan
	}
	return true
}

func (w *Worker) pos(p token.Pos, f *frame) string {
	if p == token.NoPos {
		return f.fn.Name()
	}
	ps := w.eng.prog.Fset.Position(p)
	fn := ps.Filename
	if i := strings.LastIndex(fn, "/"); i >= 0 {
		fn = fn[i+1:]
	}
	return fmt.Sprintf("%s:%d", fn, ps.Line)
}

// prepareCall evaluates callee and arguments of a call.
func (w *Worker) prepareCall(f *frame, c *ssa.CallCommon) (Value, []Value) {
	var args []Value
	var fv Value
	if c.IsInvoke() {
		recv := f.get(w, c.Value).(IfaceV)
		if recv.t == nil {
			return nil, nil
		}
		m := w.eng.lookupMethod(recv.t, c.Method)
		if m == nil {
			unsupported("no method %s on %s", c.Method.Name(), recv.t)
		}
		fv = &FuncV{fn: m}
		args = append(args, recv.v)
	} else {
		v := f.get(w, c.Value)
		fn, _ := v.(*FuncV)
		if fn == nil {
			return nil, nil
		}
		fv = fn
	}
	for _, a := range c.Args {
		args = append(args, f.get(w, a))
	}
	return fv, args
}

// ---- symbolic decisions -----------------------------------------------------

// decided reports whether c (or its negation) is already a conjunct of pc.
func decided(st *State, c *Term) (bool, bool) {
	n := mkNot(c)
	for i := len(st.pc) - 1; i >= 0; i-- {
		if st.pc[i] == c {
			return true, true
		}
		if st.pc[i] == n {
			return false, true
		}
	}
	return false, false
}

// feasibility of pc∧c and pc∧¬c; returns models when found.
func (w *Worker) feasible(st *State, c *Term) (bool, *Model, bool, *Model) {
	var mt, mf *Model
	var ft, ff, known bool
	if st.model != nil {
		ctx := evalCtx{m: st.model, memo: map[int32]int64{}}
		v := ctx.ev(c)
		known = true
		if v != 0 {
			ft, mt = true, st.model
		} else {
			ff, mf = true, st.model
		}
		w.solver.stats.ModelHits++
	}
	if !(known && ft) {
		r, m := w.solver.check(append(st.pc[:len(st.pc):len(st.pc)], c), true)
		if r == Unknown {
			w.job.noteUnknown("feasibility")
			r = Sat // keep the path (over-approximate); verdicts on it still need unsat proofs
		}
		ft, mt = r == Sat, m
		if !ft && !known {
			// pc is assumed satisfiable: the other side must be feasible
			return false, nil, true, nil
		}
	}
	if !(known && ff) {
		r, m := w.solver.check(append(st.pc[:len(st.pc):len(st.pc)], mkNot(c)), true)
		if r == Unknown {
			w.job.noteUnknown("feasibility")
			r = Sat
		}
		ff, mf = r == Sat, m
	}
	return ft, mt, ff, mf
}

// decide resolves a symbolic boolean for frame f, forking a re-executing clone
// for the other side when both are feasible.
func (w *Worker) decide(f *frame, c *Term, work *[]*frame) bool {
	if c.isConst() {
		return c.isTrue()
	}
	if v, ok := decided(f.st, c); ok {
		return v
	}
	w.branches++
	if w.profile != nil {
		w.profile[f.fn.String()+" "+w.pos(f.block.Instrs[f.ip].Pos(), f)]++
	}
	ft, mt, ff, mf := w.feasible(f.st, c)
	switch {
	case ft && ff:
		g := f.clone()
		g.st.assume(mkNot(c))
		g.st.model = mf
		w.states++
		*work = append(*work, g)
		f.st.assume(c)
		f.st.model = mt
		return true
	case ft:
		f.st.assumeImplied(c)
		return true
	case ff:
		f.st.assumeImplied(mkNot(c))
		return false
	}
	// both infeasible: pc itself unsat (can happen after an Unknown kept a path)
	f.st.assume(c)
	return true
}

// assumeImplied records c as decided without invalidating the model.
func (st *State) assumeImplied(c *Term) {
	m := st.model
	st.assume(c)
	if st.model == nil {
		st.model = m
	}
}

// pick concretises an integer term by forking over its feasible values
// (bounded by limit); re-executing clones are queued for the alternatives.
func (w *Worker) pick(f *frame, t *Term, limit int, work *[]*frame, what string) int64 {
	if t.isConst() {
		return t.k
	}
	// already pinned?
	for i := len(f.st.pc) - 1; i >= 0; i-- {
		p := f.st.pc[i]
		if p.op == OpEq && p.args[0] == t && p.args[1].isConst() {
			return p.args[1].k
		}
	}
	var vals []int64
	var models []*Model
	extra := []*Term{}
	for len(vals) <= limit {
		r, m := w.solver.check(append(append(f.st.pc[:len(f.st.pc):len(f.st.pc)], extra...)), true)
		if r == Unknown {
			unsupported("concretise %s: solver unknown", what)
		}
		if r == Unsat {
			break
		}
		if m == nil {
			unsupported("concretise %s: no model", what)
		}
		v := m.eval(t)
		vals = append(vals, v)
		models = append(models, m)
		extra = append(extra, mkNot(mkEq(t, mkInt(v))))
	}
	if len(vals) > limit {
		panic(BoundExceeded{fmt.Sprintf("more than %d values for %s", limit, what)})
	}
	if len(vals) == 0 {
		// infeasible path; pin arbitrary
		f.st.assume(mkEq(t, mkInt(0)))
		return 0
	}
	for i := 1; i < len(vals); i++ {
		g := f.clone()
		g.st.assume(mkEq(t, mkInt(vals[i])))
		g.st.model = models[i]
		w.states++
		*work = append(*work, g)
	}
	f.st.assume(mkEq(t, mkInt(vals[0])))
	f.st.model = models[0]
	return vals[0]
}

func (w *Worker) noteSite(f *frame, x *ssa.If, taken bool) {
	if len(w.eng.siteIfs) == 0 {
		return
	}
	if id, ok := w.eng.siteIfs[x]; ok && taken {
		if f.st.sites == nil {
			f.st.sites = map[string]*Term{}
		}
		f.st.sites[id] = tTrue
	}
}
