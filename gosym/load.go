package main

import (
	"fmt"
	"go/ast"
	"go/token"
	"go/types"
	"os"
	"path/filepath"
	"regexp"
	"sort"
	"strconv"
	"strings"
	"sync"
	"time"

	"golang.org/x/tools/go/packages"
	"golang.org/x/tools/go/ssa"
	"golang.org/x/tools/go/ssa/ssautil"
)

const modPath = "github.com/go-gts/gts"

var harnessDirs = map[string]string{ // /verif/harness/<key> -> package dir under /repo
	"gts":    "",
	"seqio":  "seqio",
	"cache":  "cmd/cache",
	"cmdgts": "cmd/gts",
}

type HarnessSpec struct {
	Name          string
	Prop          string
	Pkg           string
	Quick         int // shards in quick tier (0 = not run in quick)
	Thorough      int
	Steps         int64
	PathSteps     int
	Timeout       int      // seconds per shard
	Models        []string // groups of package-scoped models enabled for this harness (nil = all)
	NoMerge       bool
	MergeConcrete bool
	Fn            *ssa.Function
}

type scopedModel struct {
	target, group string
	fn            *ssa.Function
}

type Engine struct {
	repo     string
	verifDir string
	prog     *ssa.Program
	pkgs     []*packages.Package
	ssaPkgs  map[string]*ssa.Package

	globals      map[*ssa.Global]int
	globalName   map[int]string
	uninitGlobal map[int]bool
	base         map[int]Value
	baseNext     int

	redirect     map[string]*ssa.Function
	scopedModels map[string][]scopedModel
	harnessFns   map[*ssa.Function]bool
	intrinsic    map[*ssa.Function]bool
	harnesses    map[string]*HarnessSpec
	overlay      map[string][]byte
	rtFiles      map[string]bool

	methodCache sync.Map
	implCache   sync.Map

	siteIfs   map[*ssa.If]string
	siteFns   map[*ssa.Function]string
	siteDesc  map[string]*KnownFinding
	known     []*KnownFinding
	tier      int // 0 quick, 1 thorough
	verbose   bool
	loadTime  time.Duration
	initSteps int64

	mapOrderReverse bool
	initAllowed     func(path string) bool
	witnessPerJob   int
	baseFS          []fsEntry
	stdHandles      []StrV
	coverDecl       map[string][]string
	boundsDoc       map[string]string
	assumeDoc       map[string][]string
}

func (e *Engine) assumptionsFor(harnesses []string) []string {
	out := []string{
		"Go ints are encoded as SMT Int; every 64-bit arithmetic result is proved (interval or solver) to stay in range on the path, narrow types wrap explicitly",
		"symbolic coordinates/lengths are capped (default 2^40) as stated per harness; shapes (arity, nesting, lengths of byte strings) are bounded as stated",
		"append growth policy is modelled as doubling (in place iff len+k<=cap, which is the part that matters for aliasing)",
		"map iteration uses insertion order unless a harness asks for the reverse order",
	}
	seen := map[string]bool{}
	for _, h := range harnesses {
		for _, a := range e.assumeDoc[h] {
			if !seen[a] {
				seen[a] = true
				out = append(out, h+": "+a)
			}
		}
	}
	return out
}

func (e *Engine) isIntrinsic(fn *ssa.Function) bool { return e.intrinsic[fn] }
func (e *Engine) isHarnessFn(fn *ssa.Function) bool { return e.harnessFns[fn] }

var directiveRe = regexp.MustCompile(`(\w+)=(\S+)`)

func loadEngine(repo, verifDir string, tier int, verbose bool) *Engine {
	t0 := time.Now()
	e := &Engine{repo: repo, verifDir: verifDir, tier: tier, verbose: verbose,
		globals: map[*ssa.Global]int{}, globalName: map[int]string{}, uninitGlobal: map[int]bool{},
		base: map[int]Value{}, redirect: map[string]*ssa.Function{}, scopedModels: map[string][]scopedModel{}, harnessFns: map[*ssa.Function]bool{},
		intrinsic: map[*ssa.Function]bool{}, harnesses: map[string]*HarnessSpec{}, overlay: map[string][]byte{},
		rtFiles: map[string]bool{}, coverDecl: map[string][]string{}, boundsDoc: map[string]string{}, assumeDoc: map[string][]string{}, ssaPkgs: map[string]*ssa.Package{}, siteIfs: map[*ssa.If]string{}, siteFns: map[*ssa.Function]string{}, siteDesc: map[string]*KnownFinding{}}

	rt, err := os.ReadFile(filepath.Join(verifDir, "harness", "rt", "zz_verif_rt.go"))
	if err != nil {
		fatal("read runtime: %v", err)
	}
	var patterns []string
	for key, rel := range harnessDirs {
		dir := filepath.Join(verifDir, "harness", key)
		files, _ := filepath.Glob(filepath.Join(dir, "*.go"))
		if len(files) == 0 {
			continue
		}
		pkgDir := filepath.Join(repo, rel)
		pkgName := packageNameOf(pkgDir)
		for _, fpath := range files {
			src, err := os.ReadFile(fpath)
			if err != nil {
				fatal("%v", err)
			}
			e.overlay[filepath.Join(pkgDir, "zz_verif_"+filepath.Base(fpath))] = src
		}
		rtSrc := strings.Replace(string(rt), "package rt", "package "+pkgName, 1)
		rtPath := filepath.Join(pkgDir, "zz_verif_rt.go")
		e.overlay[rtPath] = []byte(rtSrc)
		e.rtFiles[rtPath] = true
		if rel == "" {
			patterns = append(patterns, modPath)
		} else {
			patterns = append(patterns, modPath+"/"+rel)
		}
	}
	sort.Strings(patterns)
	cfg := &packages.Config{Mode: packages.LoadAllSyntax, Dir: repo, Overlay: e.overlay,
		Env: append(os.Environ(), "GOFLAGS=-mod=mod", "GOPROXY=off", "GOSUMDB=off", "GOTOOLCHAIN=local")}
	pkgs, err := packages.Load(cfg, patterns...)
	if err != nil {
		fatal("packages.Load: %v", err)
	}
	nerr := 0
	packages.Visit(pkgs, nil, func(p *packages.Package) {
		for _, er := range p.Errors {
			if strings.HasPrefix(p.PkgPath, modPath) {
				fmt.Fprintf(os.Stderr, "load error: %s: %v\n", p.PkgPath, er)
				nerr++
			}
		}
	})
	if nerr > 0 {
		fatal("BUILD-FAILED: /repo (with harness overlay) does not type-check")
	}
	e.pkgs = pkgs
	prog, spkgs := ssautil.AllPackages(pkgs, ssa.InstantiateGenerics)
	prog.Build()
	e.prog = prog
	_ = spkgs
	for _, p := range prog.AllPackages() {
		e.ssaPkgs[p.Pkg.Path()] = p
	}
	// globals
	id := 0
	var names []string
	for path := range e.ssaPkgs {
		names = append(names, path)
	}
	sort.Strings(names)
	for _, path := range names {
		p := e.ssaPkgs[path]
		var mnames []string
		for n := range p.Members {
			mnames = append(mnames, n)
		}
		sort.Strings(mnames)
		for _, n := range mnames {
			if g, ok := p.Members[n].(*ssa.Global); ok {
				id++
				e.globals[g] = id
				e.globalName[id] = g.String()
				e.base[id] = zeroValue(g.Type().Underlying().(*types.Pointer).Elem())
			}
		}
	}
	e.baseNext = id
	// harness functions, intrinsics, directives
	for _, pk := range pkgs {
		sp := e.ssaPkgs[pk.PkgPath]
		for i, file := range pk.Syntax {
			fname := pk.CompiledGoFiles[i]
			if !strings.HasPrefix(filepath.Base(fname), "zz_verif_") {
				continue
			}
			isRT := e.rtFiles[fname]
			for _, d := range file.Decls {
				fd, ok := d.(*ast.FuncDecl)
				if !ok || fd.Recv != nil {
					continue
				}
				fn := sp.Func(fd.Name.Name)
				if fn == nil {
					continue
				}
				if isRT {
					if strings.HasPrefix(fd.Name.Name, "vm_") {
						e.harnessFns[fn] = false
					} else if fd.Body != nil && hasDirective(fd.Doc, "verif:intrinsic") {
						e.intrinsic[fn] = true
					}
					if fd.Doc != nil {
						for _, c := range fd.Doc.List {
							if strings.HasPrefix(c.Text, "//verif:model ") {
								target := strings.TrimSpace(strings.TrimPrefix(c.Text, "//verif:model "))
								if _, dup := e.redirect[target]; !dup || pk.PkgPath == modPath {
									e.redirect[target] = fn
								}
							}
						}
					}
					continue
				}
				e.harnessFns[fn] = true
				for _, an := range fn.AnonFuncs {
					e.harnessFns[an] = true
				}
				if fd.Doc == nil {
					continue
				}
				for _, c := range fd.Doc.List {
					// models declared in a harness file are scoped to the harnesses of that package
					if strings.HasPrefix(c.Text, "//verif:model ") {
						fields := strings.Fields(strings.TrimPrefix(c.Text, "//verif:model "))
						target, group := fields[0], "default"
						for _, f := range fields[1:] {
							if strings.HasPrefix(f, "group=") {
								group = strings.TrimPrefix(f, "group=")
							}
						}
						e.scopedModels[pk.PkgPath] = append(e.scopedModels[pk.PkgPath], scopedModel{target, group, fn})
					}
				}
				for _, c := range fd.Doc.List {
					if !strings.HasPrefix(c.Text, "//verif:harness") {
						continue
					}
					h := &HarnessSpec{Name: fd.Name.Name, Pkg: pk.PkgPath, Fn: fn, Quick: 1, Thorough: 1, Steps: 50_000_000, PathSteps: 20_000_000, Timeout: 600}
					for _, m := range directiveRe.FindAllStringSubmatch(c.Text, -1) {
						switch m[1] {
						case "prop":
							h.Prop = m[2]
						case "quick":
							h.Quick, _ = strconv.Atoi(m[2])
						case "thorough":
							h.Thorough, _ = strconv.Atoi(m[2])
						case "steps":
							h.Steps, _ = strconv.ParseInt(m[2], 10, 64)
						case "pathsteps":
							h.PathSteps, _ = strconv.Atoi(m[2])
						case "timeout":
							h.Timeout, _ = strconv.Atoi(m[2])
						case "nomerge":
							h.NoMerge = m[2] == "1"
						case "models":
							h.Models = strings.Split(m[2], ",")
						case "merge":
							h.MergeConcrete = m[2] == "concrete"
							h.NoMerge = m[2] == "none"
						}
					}
					e.harnesses[h.Name] = h
				}
				for _, c := range fd.Doc.List {
					if strings.HasPrefix(c.Text, "//verif:bounds ") {
						e.boundsDoc[fd.Name.Name] += strings.TrimPrefix(c.Text, "//verif:bounds ") + " "
					}
					if strings.HasPrefix(c.Text, "//verif:assume ") {
						e.assumeDoc[fd.Name.Name] = append(e.assumeDoc[fd.Name.Name], strings.TrimPrefix(c.Text, "//verif:assume "))
					}
				}
				ast.Inspect(fd.Body, func(n ast.Node) bool {
					if ce, ok := n.(*ast.CallExpr); ok {
						if id, ok := ce.Fun.(*ast.Ident); ok && id.Name == "vCover" && len(ce.Args) == 1 {
							if bl, ok := ce.Args[0].(*ast.BasicLit); ok {
								if s, err := strconv.Unquote(bl.Value); err == nil {
									e.coverDecl[fd.Name.Name] = append(e.coverDecl[fd.Name.Name], s)
								}
							}
						}
					}
					return true
				})
			}
		}
	}
	e.initAllowed = func(path string) bool {
		if strings.HasPrefix(path, "github.com/go-") || path == modPath || strings.HasPrefix(path, modPath+"/") {
			return true
		}
		switch path {
		case "io", "strings", "bytes", "sort", "strconv", "unicode/utf8", "bufio", "math/bits", "internal/bytealg",
			"encoding/hex", "internal/itoa", "slices", "cmp", "internal/stringslite", "encoding/binary", "hash", "hash/crc32-skip", "io/fs-skip",
			"path", "container/list", "unicode/utf16", "io/ioutil-skip":
			return true
		}
		return false
	}
	e.markUninit()
	e.loadTime = time.Since(t0)
	return e
}

func hasDirective(doc *ast.CommentGroup, d string) bool {
	if doc == nil {
		return false
	}
	for _, c := range doc.List {
		if strings.HasPrefix(c.Text, "//"+d) {
			return true
		}
	}
	return false
}

func packageNameOf(dir string) string {
	files, _ := filepath.Glob(filepath.Join(dir, "*.go"))
	fset := token.NewFileSet()
	for _, f := range files {
		if strings.HasSuffix(f, "_test.go") {
			continue
		}
		src, err := os.ReadFile(f)
		if err != nil {
			continue
		}
		i := strings.Index(string(src), "\npackage ")
		if strings.HasPrefix(string(src), "package ") {
			i = -1
			rest := string(src)[len("package "):]
			return strings.Fields(rest)[0]
		}
		if i >= 0 {
			rest := string(src)[i+len("\npackage "):]
			return strings.Fields(rest)[0]
		}
	}
	_ = fset
	fatal("cannot determine package name of %s", dir)
	return ""
}

// markUninit flags globals written by the init of packages whose init is skipped.
func (e *Engine) markUninit() {
	for path, p := range e.ssaPkgs {
		if e.initAllowed(path) {
			continue
		}
		for _, m := range p.Members {
			fn, ok := m.(*ssa.Function)
			if !ok || !(fn.Name() == "init" || strings.HasPrefix(fn.Name(), "init#")) {
				continue
			}
			for _, b := range fn.Blocks {
				for _, in := range b.Instrs {
					if s, ok := in.(*ssa.Store); ok {
						if g := rootGlobal(s.Addr); g != nil {
							e.uninitGlobal[e.globals[g]] = true
						}
					}
				}
			}
		}
	}
}

func rootGlobal(v ssa.Value) *ssa.Global {
	for {
		switch x := v.(type) {
		case *ssa.Global:
			return x
		case *ssa.FieldAddr:
			v = x.X
		case *ssa.IndexAddr:
			v = x.X
		default:
			return nil
		}
	}
}

func (e *Engine) lookupMethod(t types.Type, m *types.Func) *ssa.Function {
	key := t.String() + "." + m.Id()
	if v, ok := e.methodCache.Load(key); ok {
		return v.(*ssa.Function)
	}
	fn := e.prog.LookupMethod(t, m.Pkg(), m.Name())
	if fn != nil {
		e.methodCache.Store(key, fn)
	}
	return fn
}

func (e *Engine) implements(t types.Type, iface types.Type) bool {
	key := t.String() + "<:" + iface.String()
	if v, ok := e.implCache.Load(key); ok {
		return v.(bool)
	}
	r := types.Implements(t, iface.Underlying().(*types.Interface))
	e.implCache.Store(key, r)
	return r
}

// runInits executes the package initialisers of the packages under test once.
func (e *Engine) runInits(solverCmd []string) {
	st := &State{base: e.base, heap: map[int]Value{}, nextID: e.baseNext}
	w := &Worker{eng: e, maxSteps: 400_000_000, deadline: time.Now().Add(10 * time.Minute), maxDepth: 4000, noMerge: true,
		job: &JobResult{}}
	w.solver = newSolver(solverCmd, 10000)
	defer w.solver.close()
	dbgWorker = w
	var targets []string
	for _, pk := range e.pkgs {
		targets = append(targets, pk.PkgPath)
	}
	sort.Strings(targets)
	for _, path := range targets {
		p := e.ssaPkgs[path]
		initFn := p.Func("init")
		outs := w.call(st, &FuncV{fn: initFn}, nil, 0, "init")
		if len(outs) != 1 || outs[0].pan != nil {
			msg := "?"
			if len(outs) > 0 && outs[0].pan != nil {
				msg = outs[0].pan.String()
			}
			fatal("package init of %s: %d outcomes (%s)", path, len(outs), msg)
		}
		st = outs[0].st
	}
	// model handles for the standard streams (cmd/gts harnesses)
	if osp := e.ssaPkgs["os"]; osp != nil {
		for _, nm := range []string{"Stdin", "Stdout", "Stderr"} {
			g, ok := osp.Members[nm].(*ssa.Global)
			if !ok {
				continue
			}
			name := StrV{s: "/dev/" + strings.ToLower(nm)}
			obj := st.alloc(&ArrV{})
			st.fsPut(-1, name, obj)
			h := w.newHandle(st, name, obj)
			st.set(e.globals[g], h)
			delete(e.uninitGlobal, e.globals[g])
			e.stdHandles = append(e.stdHandles, name)
		}
	}
	e.baseFS = st.fs
	for id, v := range st.heap {
		e.base[id] = v
	}
	e.baseNext = st.nextID
	e.initSteps = w.steps
}

func fatal(format string, args ...interface{}) {
	fmt.Fprintf(os.Stderr, "gosym: "+format+"\n", args...)
	os.Exit(2)
}
