package main

// Engine-native models of standard-library functions (DESIGN §2.5).

import (
	"fmt"
	"go/types"
	"strconv"
	"strings"

	"golang.org/x/tools/go/ssa"
)

// ---- helpers: value <-> native --------------------------------------------------

// toNative converts a fully concrete value of a simple type to a Go value for
// the real fmt; ok=false if the value is symbolic or has methods that matter.
func (w *Worker) toNative(st *State, v Value, t types.Type) (interface{}, bool) {
	switch x := v.(type) {
	case *Term:
		if !x.isConst() {
			return nil, false
		}
		if x.sort == SBool {
			return x.k != 0, true
		}
		if b, ok := t.Underlying().(*types.Basic); ok {
			switch b.Kind() {
			case types.Uint8:
				return uint8(x.k), true
			case types.Int32:
				return int32(x.k), true
			case types.Uint, types.Uint64, types.Uint32, types.Uint16, types.Uintptr:
				return uint64(x.k), true
			case types.Int64:
				return x.k, true
			}
		}
		return int(x.k), true
	case StrV:
		if !x.isConcrete() {
			return nil, false
		}
		return x.s, true
	case float64:
		return x, true
	case SliceV:
		st2, ok := t.Underlying().(*types.Slice)
		if !ok {
			return nil, false
		}
		if x.obj == 0 {
			return []interface{}(nil), true
		}
		elems := w.sliceElems(st, x)
		if eb, ok := st2.Elem().Underlying().(*types.Basic); ok && eb.Kind() == types.Uint8 {
			bs := make([]byte, len(elems))
			for i, e := range elems {
				c := e.(*Term)
				if !c.isConst() {
					return nil, false
				}
				bs[i] = byte(c.k)
			}
			return bs, true
		}
		if hasFmtMethod(st2.Elem()) {
			return nil, false
		}
		out := make([]interface{}, len(elems))
		for i, e := range elems {
			n, ok := w.toNative(st, e, st2.Elem())
			if !ok {
				return nil, false
			}
			out[i] = n
		}
		return out, true
	case IfaceV:
		if x.t == nil {
			return nil, true
		}
		if hasFmtMethod(x.t) {
			return nil, false
		}
		return w.toNative(st, x.v, x.t)
	}
	return nil, false
}

func hasFmtMethod(t types.Type) bool {
	for _, tt := range []types.Type{t, types.NewPointer(t)} {
		ms := types.NewMethodSet(tt)
		for i := 0; i < ms.Len(); i++ {
			n := ms.At(i).Obj().Name()
			if n == "String" || n == "Error" || n == "Format" || n == "GoString" {
				return true
			}
		}
		if _, isPtr := t.(*types.Pointer); isPtr {
			break
		}
	}
	if _, ok := t.Underlying().(*types.Interface); ok {
		return true
	}
	return false
}

type fmtPath struct {
	st    *State
	parts []*Term
	pan   *PanicV
}

func termsOfString(s string) []*Term { return StrV{s: s}.bytes() }

// decimalOf renders a (possibly symbolic) integer as decimal digits, forking
// over the number of digits; digit j is (|x| div 10^j) mod 10.
func (w *Worker) decimalOf(st *State, x *Term, plus bool) []fmtPath {
	if x.isConst() {
		s := strconv.FormatInt(x.k, 10)
		if plus && x.k >= 0 {
			s = "+" + s
		}
		return []fmtPath{{st: st, parts: termsOfString(s)}}
	}
	var out []fmtPath
	type rng struct {
		neg    bool
		lo, hi int64
		digits int
	}
	var cases []rng
	p := int64(1)
	for d := 1; d <= 18; d++ {
		lo, hi := p, p*10-1
		if d == 1 {
			lo = 0
		}
		if x.hi >= lo && x.lo <= hi {
			cases = append(cases, rng{false, lo, hi, d})
		}
		nlo, nhi := -hi, -p
		if x.lo <= nhi && x.hi >= nlo {
			cases = append(cases, rng{true, p, hi, d})
		}
		p *= 10
	}
	if x.lo <= negInf || x.hi >= posInf || x.hi >= 1e18 || x.lo <= -1e18 {
		unsupported("decimal rendering of an unbounded symbolic integer")
	}
	for _, c := range cases {
		var cond *Term
		mag := x
		if c.neg {
			mag = mkNeg(x)
		}
		cond = mkAnd(mkLe(mkInt(c.lo), mag), mkLe(mag, mkInt(c.hi)))
		if c.neg {
			cond = mkAnd(cond, mkLt(x, mkInt(0)))
		} else {
			cond = mkAnd(cond, mkLe(mkInt(0), x))
		}
		r, m := w.solver.check(append(st.pc[:len(st.pc):len(st.pc)], cond), true)
		if r == Unsat {
			continue
		}
		if r == Unknown {
			w.job.noteUnknown("decimal digits")
		}
		s := st.fork()
		w.states++
		s.assume(cond)
		s.model = m
		var ds []*Term
		if c.neg {
			ds = append(ds, mkInt('-'))
		} else if plus {
			ds = append(ds, mkInt('+'))
		}
		// fresh digit variables with the defining (linear) constraint mag = sum d_j*10^j;
		// keyed by the printed term so that printing the same value twice gives the same bytes
		sum := mkInt(0)
		pw := int64(1)
		digs := make([]*Term, c.digits)
		for j := 0; j < c.digits; j++ {
			lo := int64(0)
			if j == c.digits-1 && c.digits > 1 {
				lo = 1
			}
			name := fmt.Sprintf("dig!%d!%d!%d", mag.id, c.digits, j)
			d := mkVar(name, SInt, lo, 9)
			digs[j] = d
			s.pc = append(s.pc[:len(s.pc):len(s.pc)],
				intern(&Term{op: OpLe, sort: SBool, args: []*Term{mkInt(lo), d}}),
				intern(&Term{op: OpLe, sort: SBool, args: []*Term{d, mkInt(9)}}))
			sum = mkAdd(sum, mkMul(d, mkInt(pw)))
			pw *= 10
		}
		s.pc = append(s.pc, intern(&Term{op: OpEq, sort: SBool, args: []*Term{mag, sum}}))
		if s.model != nil {
			mv := s.model.eval(mag)
			m2 := &Model{vals: make(map[string]int64, len(s.model.vals)+c.digits), uf: s.model.uf}
			for k, v := range s.model.vals {
				m2.vals[k] = v
			}
			for j := 0; j < c.digits; j++ {
				m2.vals[digs[j].name] = mv % 10
				mv /= 10
			}
			s.model = m2
		}
		for j := c.digits - 1; j >= 0; j-- {
			ds = append(ds, mkAdd(digs[j], mkInt('0')))
		}
		out = append(out, fmtPath{st: s, parts: ds})
	}
	return out
}

type fmtSpec struct {
	verb              byte
	plus, minus, zero bool
	sharp, space      bool
	width, prec       int
	hasWidth, hasPrec bool
}

func pad(ts []*Term, sp fmtSpec) []*Term {
	if !sp.hasWidth || len(ts) >= sp.width {
		return ts
	}
	n := sp.width - len(ts)
	padc := int64(' ')
	if sp.zero && !sp.minus {
		padc = '0'
	}
	p := make([]*Term, n)
	for i := range p {
		p[i] = mkInt(padc)
	}
	if sp.minus {
		return append(append([]*Term{}, ts...), p...)
	}
	if padc == '0' && len(ts) > 0 && ts[0].isConst() && (ts[0].k == '-' || ts[0].k == '+') {
		return append(append([]*Term{ts[0]}, p...), ts[1:]...)
	}
	return append(p, ts...)
}

// formatOne renders one operand.
func (w *Worker) formatOne(st *State, sp fmtSpec, arg Value, depth int) []fmtPath {
	iv, isIface := arg.(IfaceV)
	if !isIface {
		panic(engineErr("formatOne: operand is not an interface value"))
	}
	if iv.t == nil {
		switch sp.verb {
		case 'v':
			return []fmtPath{{st: st, parts: pad(termsOfString("<nil>"), sp)}}
		case 'T':
			return []fmtPath{{st: st, parts: pad(termsOfString("<nil>"), sp)}}
		}
		return []fmtPath{{st: st, parts: termsOfString("%!" + string(sp.verb) + "(<nil>)")}}
	}
	if sp.verb == 'T' {
		return []fmtPath{{st: st, parts: pad(termsOfString(iv.t.String()), sp)}}
	}
	// error / Stringer
	if sp.verb == 'v' || sp.verb == 's' || sp.verb == 'q' {
		for _, mname := range []string{"Error", "String"} {
			if m := w.fmtMethod(iv.t, mname); m != nil {
				outs := w.call(st, &FuncV{fn: m}, []Value{iv.v}, depth+1, "fmt "+mname)
				var res []fmtPath
				for _, o := range outs {
					if o.pan != nil {
						res = append(res, fmtPath{st: o.st, pan: o.pan})
						continue
					}
					s := o.ret.(StrV)
					ts := s.bytes()
					if sp.verb == 'q' {
						if !s.isConcrete() {
							unsupported("%%q of symbolic string")
						}
						ts = termsOfString(strconv.Quote(s.s))
					}
					res = append(res, fmtPath{st: o.st, parts: pad(ts, sp)})
				}
				return res
			}
		}
	}
	// concrete fast path through the real fmt
	if n, ok := w.toNative(st, iv.v, iv.t); ok {
		f := "%"
		if sp.plus {
			f += "+"
		}
		if sp.minus {
			f += "-"
		}
		if sp.sharp {
			f += "#"
		}
		if sp.space {
			f += " "
		}
		if sp.zero {
			f += "0"
		}
		if sp.hasWidth {
			f += strconv.Itoa(sp.width)
		}
		if sp.hasPrec {
			f += "." + strconv.Itoa(sp.prec)
		}
		f += string(sp.verb)
		if sl, isSl := n.([]interface{}); isSl && sl == nil {
			return []fmtPath{{st: st, parts: termsOfString(fmt.Sprintf(f, []int(nil)))}}
		}
		return []fmtPath{{st: st, parts: termsOfString(fmt.Sprintf(f, n))}}
	}
	// symbolic operands
	switch x := iv.v.(type) {
	case *Term:
		if x.sort == SBool {
			unsupported("formatting a symbolic bool")
		}
		switch sp.verb {
		case 'd', 'v':
			paths := w.decimalOf(st, x, sp.plus)
			for i := range paths {
				paths[i].parts = pad(paths[i].parts, sp)
			}
			return paths
		case 'c':
			if x.lo >= 0 && x.hi < 0x80 {
				return []fmtPath{{st: st, parts: pad([]*Term{x}, sp)}}
			}
			if x.lo >= 0 && x.hi < 256 {
				// byte formatted with %c: values >= 0x80 become two UTF-8 bytes: fork
				c := mkLt(x, mkInt(0x80))
				ft, mt, ff, mf := w.feasible(st, c)
				var res []fmtPath
				if ft {
					s := st
					if ff {
						s = st.fork()
					}
					s.assume(c)
					s.model = mt
					res = append(res, fmtPath{st: s, parts: pad([]*Term{x}, sp)})
				}
				if ff {
					st.assume(mkNot(c))
					st.model = mf
					b0 := mkAdd(mkInt(0xC0), mkEDiv(x, mkInt(64)))
					b1 := mkAdd(mkInt(0x80), mkEMod(x, mkInt(64)))
					res = append(res, fmtPath{st: st, parts: pad([]*Term{b0, b1}, sp)})
				}
				return res
			}
		}
		unsupported("formatting symbolic integer with %%%c", sp.verb)
	case StrV:
		switch sp.verb {
		case 's', 'v':
			return []fmtPath{{st: st, parts: pad(x.bytes(), sp)}}
		}
		unsupported("formatting symbolic string with %%%c", sp.verb)
	case SliceV:
		if sl, ok := iv.t.Underlying().(*types.Slice); ok {
			if eb, ok := sl.Elem().Underlying().(*types.Basic); ok && eb.Kind() == types.Uint8 && sp.verb == 's' {
				var ts []*Term
				for _, e := range w.sliceElems(st, x) {
					ts = append(ts, e.(*Term))
				}
				return []fmtPath{{st: st, parts: pad(ts, sp)}}
			}
			if sp.verb == 'v' || sp.verb == 's' {
				// [e1 e2 ...]
				paths := []fmtPath{{st: st, parts: termsOfString("[")}}
				for i, e := range w.sliceElems(st, x) {
					var next []fmtPath
					for _, p := range paths {
						if p.pan != nil {
							next = append(next, p)
							continue
						}
						for _, q := range w.formatOne(p.st, fmtSpec{verb: sp.verb}, IfaceV{sl.Elem(), e}, depth) {
							parts := append(append([]*Term{}, p.parts...), q.parts...)
							if i > 0 {
								parts = append(append(append([]*Term{}, p.parts...), mkInt(' ')), q.parts...)
							}
							next = append(next, fmtPath{st: q.st, parts: parts, pan: q.pan})
						}
					}
					paths = next
				}
				for i := range paths {
					paths[i].parts = append(paths[i].parts, mkInt(']'))
				}
				return paths
			}
		}
	}
	unsupported("fmt: operand %s (type %s) with verb %%%c", showValue(iv.v, 2), iv.t, sp.verb)
	return nil
}

func (w *Worker) fmtMethod(t types.Type, name string) *ssa.Function {
	key := "fmt:" + t.String() + "." + name
	if v, ok := w.eng.methodCache.Load(key); ok {
		fn, _ := v.(*ssa.Function)
		return fn
	}
	var fn *ssa.Function
	if sel := types.NewMethodSet(t).Lookup(nil, name); sel != nil {
		sig := sel.Type().(*types.Signature)
		if sig.Params().Len() == 0 && sig.Results().Len() == 1 {
			if b, ok := sig.Results().At(0).Type().(*types.Basic); ok && b.Kind() == types.String {
				if _, isIface := t.Underlying().(*types.Interface); !isIface {
					fn = w.eng.prog.LookupMethod(t, nil, name)
				}
			}
		}
	}
	w.eng.methodCache.Store(key, fn)
	return fn
}

// sprintf interprets a concrete format string over interface operands.
func (w *Worker) sprintf(st *State, format string, args []Value, depth int) []fmtPath {
	paths := []fmtPath{{st: st}}
	argi := 0
	appendAll := func(ts []*Term) {
		for i := range paths {
			if paths[i].pan == nil {
				paths[i].parts = append(paths[i].parts, ts...)
			}
		}
	}
	i := 0
	for i < len(format) {
		c := format[i]
		if c != '%' {
			j := i
			for j < len(format) && format[j] != '%' {
				j++
			}
			appendAll(termsOfString(format[i:j]))
			i = j
			continue
		}
		i++
		if i >= len(format) {
			appendAll(termsOfString("%!(NOVERB)"))
			break
		}
		var sp fmtSpec
	flags:
		for i < len(format) {
			switch format[i] {
			case '+':
				sp.plus = true
			case '-':
				sp.minus = true
			case '#':
				sp.sharp = true
			case '0':
				sp.zero = true
			case ' ':
				sp.space = true
			default:
				break flags
			}
			i++
		}
		if i < len(format) && format[i] == '*' {
			wv := args[argi].(IfaceV).v.(*Term)
			argi++
			if !wv.isConst() {
				unsupported("symbolic * width")
			}
			sp.width, sp.hasWidth = int(wv.k), true
			if sp.width < 0 {
				sp.width, sp.minus = -sp.width, true
			}
			i++
		} else {
			for i < len(format) && format[i] >= '0' && format[i] <= '9' {
				sp.width = sp.width*10 + int(format[i]-'0')
				sp.hasWidth = true
				i++
			}
		}
		if i < len(format) && format[i] == '.' {
			i++
			sp.hasPrec = true
			for i < len(format) && format[i] >= '0' && format[i] <= '9' {
				sp.prec = sp.prec*10 + int(format[i]-'0')
				i++
			}
		}
		if i >= len(format) {
			appendAll(termsOfString("%!(NOVERB)"))
			break
		}
		sp.verb = format[i]
		i++
		if sp.verb == '%' {
			appendAll(termsOfString("%"))
			continue
		}
		if sp.verb == 'w' {
			sp.verb = 'v'
		}
		if argi >= len(args) {
			appendAll(termsOfString("%!" + string(sp.verb) + "(MISSING)"))
			continue
		}
		arg := args[argi]
		argi++
		var next []fmtPath
		for _, p := range paths {
			if p.pan != nil {
				next = append(next, p)
				continue
			}
			for _, q := range w.formatOne(p.st, sp, arg, depth) {
				next = append(next, fmtPath{st: q.st, parts: append(append([]*Term{}, p.parts...), q.parts...), pan: q.pan})
			}
		}
		paths = next
	}
	if argi < len(args) {
		appendAll(termsOfString("%!(EXTRA)"))
	}
	return paths
}

func fmtOutcomes(paths []fmtPath, mk func(st *State, s StrV) Outcome) []Outcome {
	var outs []Outcome
	for _, p := range paths {
		if p.pan != nil {
			outs = append(outs, Outcome{st: p.st, pan: p.pan})
			continue
		}
		outs = append(outs, mk(p.st, strFromTerms(p.parts)))
	}
	return outs
}

// sprint implements Sprint/Sprintln operand joining.
func (w *Worker) sprint(st *State, args []Value, ln bool, depth int) []fmtPath {
	paths := []fmtPath{{st: st}}
	for i, a := range args {
		var next []fmtPath
		for _, p := range paths {
			if p.pan != nil {
				next = append(next, p)
				continue
			}
			for _, q := range w.formatOne(p.st, fmtSpec{verb: 'v'}, a, depth) {
				parts := append([]*Term{}, p.parts...)
				if i > 0 {
					// Sprint adds spaces between operands when neither is a string; Sprintln always
					addSpace := ln
					if !ln {
						_, s1 := args[i-1].(IfaceV).v.(StrV)
						_, s2 := a.(IfaceV).v.(StrV)
						addSpace = !s1 && !s2
					}
					if addSpace {
						parts = append(parts, mkInt(' '))
					}
				}
				next = append(next, fmtPath{st: q.st, parts: append(parts, q.parts...), pan: q.pan})
			}
		}
		paths = next
	}
	if ln {
		for i := range paths {
			paths[i].parts = append(paths[i].parts, mkInt('\n'))
		}
	}
	return paths
}

func (w *Worker) variadic(st *State, v Value) []Value {
	return w.sliceElems(st, v.(SliceV))
}

func (w *Worker) newError(st *State, s StrV, depth int) Outcome {
	fn := w.eng.ssaPkgs["errors"].Func("New")
	outs := w.call(st, &FuncV{fn: fn}, []Value{s}, depth+1, "errors.New")
	return outs[0]
}

// writeTo calls wr.Write(p) for an io.Writer interface value.
func (w *Worker) writeTo(st *State, wr Value, s StrV, depth int) []Outcome {
	iv := wr.(IfaceV)
	if iv.t == nil {
		return []Outcome{{st: st, pan: &PanicV{runtime: "nil pointer dereference (nil io.Writer)", site: "fmt.Fprint"}}}
	}
	m := w.eng.prog.LookupMethod(iv.t, nil, "Write")
	if m == nil {
		unsupported("no Write method on %s", iv.t)
	}
	bs := strToValues(s)
	id := st.alloc(&ArrV{bs})
	return w.call(st, &FuncV{fn: m}, []Value{iv.v, SliceV{obj: id, len: len(bs), cap: len(bs)}}, depth+1, "fmt.Fprint*")
}

func init() {
	natives["fmt.Sprintf"] = func(w *Worker, st *State, args []Value, fv *FuncV, depth int) []Outcome {
		format := concStr(args[0], "Sprintf format")
		return fmtOutcomes(w.sprintf(st, format, w.variadic(st, args[1]), depth), func(st *State, s StrV) Outcome { return Outcome{st: st, ret: s} })
	}
	natives["fmt.Sprint"] = func(w *Worker, st *State, args []Value, fv *FuncV, depth int) []Outcome {
		return fmtOutcomes(w.sprint(st, w.variadic(st, args[0]), false, depth), func(st *State, s StrV) Outcome { return Outcome{st: st, ret: s} })
	}
	natives["fmt.Sprintln"] = func(w *Worker, st *State, args []Value, fv *FuncV, depth int) []Outcome {
		return fmtOutcomes(w.sprint(st, w.variadic(st, args[0]), true, depth), func(st *State, s StrV) Outcome { return Outcome{st: st, ret: s} })
	}
	natives["fmt.Errorf"] = func(w *Worker, st *State, args []Value, fv *FuncV, depth int) []Outcome {
		format := concStr(args[0], "Errorf format")
		ops := w.variadic(st, args[1])
		// error texts are never inspected by the properties: symbolic operands are not rendered
		symbolic := false
		for _, o := range ops {
			if iv, ok := o.(IfaceV); ok && iv.t != nil {
				if _, conc := w.toNative(st, iv.v, iv.t); !conc && !hasFmtMethod(iv.t) {
					symbolic = true
				}
			}
		}
		if symbolic {
			return []Outcome{w.newError(st, StrV{s: "<errorf:" + format + ">"}, depth)}
		}
		return fmtOutcomes(w.sprintf(st, format, ops, depth), func(st *State, s StrV) Outcome { return w.newError(st, s, depth) })
	}
	fprint := func(kind int) nativeFn {
		return func(w *Worker, st *State, args []Value, fv *FuncV, depth int) []Outcome {
			var paths []fmtPath
			switch kind {
			case 0:
				paths = w.sprintf(st, concStr(args[1], "Fprintf format"), w.variadic(st, args[2]), depth)
			case 1:
				paths = w.sprint(st, w.variadic(st, args[1]), false, depth)
			default:
				paths = w.sprint(st, w.variadic(st, args[1]), true, depth)
			}
			var outs []Outcome
			for _, p := range paths {
				if p.pan != nil {
					outs = append(outs, Outcome{st: p.st, pan: p.pan})
					continue
				}
				outs = append(outs, w.writeTo(p.st, args[0], strFromTerms(p.parts), depth)...)
			}
			return outs
		}
	}
	natives["fmt.Fprintf"] = fprint(0)
	natives["fmt.Fprint"] = fprint(1)
	natives["fmt.Fprintln"] = fprint(2)
	discard := func(w *Worker, st *State, args []Value, fv *FuncV, depth int) []Outcome {
		return ret1(st, TupleV{mkInt(0), IfaceV{}})
	}
	natives["fmt.Printf"] = discard
	natives["fmt.Println"] = discard
	natives["fmt.Print"] = discard

	natives["strconv.Itoa"] = func(w *Worker, st *State, args []Value, fv *FuncV, depth int) []Outcome {
		return fmtOutcomes(w.decimalOf(st, args[0].(*Term), false), func(st *State, s StrV) Outcome { return Outcome{st: st, ret: s} })
	}
	natives["strconv.FormatInt"] = func(w *Worker, st *State, args []Value, fv *FuncV, depth int) []Outcome {
		if concInt(args[1], "FormatInt base") != 10 {
			x := concInt(args[0], "FormatInt value")
			return ret1(st, StrV{s: strconv.FormatInt(x, int(concInt(args[1], "base")))})
		}
		return fmtOutcomes(w.decimalOf(st, args[0].(*Term), false), func(st *State, s StrV) Outcome { return Outcome{st: st, ret: s} })
	}
	natives["strconv.Quote"] = func(w *Worker, st *State, args []Value, fv *FuncV, depth int) []Outcome {
		return ret1(st, StrV{s: strconv.Quote(concStr(args[0], "strconv.Quote"))})
	}

	// strings.Builder: {addr *Builder; buf []byte}
	bufOf := func(st *State, p PtrV) SliceV {
		return st.load(PtrV{obj: p.obj, path: append(p.path[:len(p.path):len(p.path)], 1)}).(SliceV)
	}
	setBuf := func(st *State, p PtrV, s SliceV) {
		st.store(PtrV{obj: p.obj, path: append(p.path[:len(p.path):len(p.path)], 1)}, s)
	}
	natives["(*strings.Builder).WriteString"] = func(w *Worker, st *State, args []Value, fv *FuncV, depth int) []Outcome {
		p := args[0].(PtrV)
		s := args[1].(StrV)
		setBuf(st, p, appendValues(st, bufOf(st, p), strToValues(s), mkInt(0)))
		return ret1(st, TupleV{mkInt(int64(s.length())), IfaceV{}})
	}
	natives["(*strings.Builder).Write"] = func(w *Worker, st *State, args []Value, fv *FuncV, depth int) []Outcome {
		p := args[0].(PtrV)
		src := append([]Value{}, w.sliceElems(st, args[1].(SliceV))...)
		setBuf(st, p, appendValues(st, bufOf(st, p), src, mkInt(0)))
		return ret1(st, TupleV{mkInt(int64(len(src))), IfaceV{}})
	}
	natives["(*strings.Builder).WriteByte"] = func(w *Worker, st *State, args []Value, fv *FuncV, depth int) []Outcome {
		p := args[0].(PtrV)
		setBuf(st, p, appendValues(st, bufOf(st, p), []Value{args[1]}, mkInt(0)))
		return ret1(st, IfaceV{})
	}
	natives["(*strings.Builder).WriteRune"] = func(w *Worker, st *State, args []Value, fv *FuncV, depth int) []Outcome {
		p := args[0].(PtrV)
		r := args[1].(*Term)
		if !r.isConst() {
			if r.lo >= 0 && r.hi < 0x80 {
				setBuf(st, p, appendValues(st, bufOf(st, p), []Value{r}, mkInt(0)))
				return ret1(st, TupleV{mkInt(1), IfaceV{}})
			}
			ascii := mkAnd(mkLe(mkInt(0), r), mkLt(r, mkInt(0x80)))
			ft, mt, ff, mf := w.feasible(st, ascii)
			var outs []Outcome
			if ff {
				cut := st
				if ft {
					cut = st.fork()
				}
				cut.assume(mkNot(ascii))
				cut.model = mf
				outs = append(outs, Outcome{st: cut, pan: &PanicV{runtime: "CUT: UTF-8 encoding of a symbolic non-ASCII rune (Builder.WriteRune)", site: "strings.Builder"}})
			}
			if ft {
				st.assume(ascii)
				st.model = mt
				setBuf(st, p, appendValues(st, bufOf(st, p), []Value{r}, mkInt(0)))
				outs = append(outs, Outcome{st: st, ret: TupleV{mkInt(1), IfaceV{}}})
			}
			return outs
		}
		s := string(rune(r.k))
		setBuf(st, p, appendValues(st, bufOf(st, p), strToValues(StrV{s: s}), mkInt(0)))
		return ret1(st, TupleV{mkInt(int64(len(s))), IfaceV{}})
	}
	natives["(*strings.Builder).String"] = func(w *Worker, st *State, args []Value, fv *FuncV, depth int) []Outcome {
		p := args[0].(PtrV)
		var ts []*Term
		for _, e := range w.sliceElems(st, bufOf(st, p)) {
			ts = append(ts, e.(*Term))
		}
		return ret1(st, strFromTerms(ts))
	}
	natives["(*strings.Builder).Len"] = func(w *Worker, st *State, args []Value, fv *FuncV, depth int) []Outcome {
		return ret1(st, mkInt(int64(bufOf(st, args[0].(PtrV)).len)))
	}
	natives["(*strings.Builder).Grow"] = func(w *Worker, st *State, args []Value, fv *FuncV, depth int) []Outcome {
		return ret1(st, nil)
	}
	natives["(*strings.Builder).Reset"] = func(w *Worker, st *State, args []Value, fv *FuncV, depth int) []Outcome {
		setBuf(st, args[0].(PtrV), SliceV{})
		return ret1(st, nil)
	}

	// pars names its parsers through reflect/runtime; the name is never inspected.
	natives["reflect.ValueOf"] = func(w *Worker, st *State, args []Value, fv *FuncV, depth int) []Outcome {
		return ret1(st, &StructV{f: []Value{OpaqueV{kind: "reflect.Value", v: 0}}})
	}
	natives["(reflect.Value).Pointer"] = func(w *Worker, st *State, args []Value, fv *FuncV, depth int) []Outcome {
		return ret1(st, mkInt(0))
	}
	natives["runtime.FuncForPC"] = func(w *Worker, st *State, args []Value, fv *FuncV, depth int) []Outcome {
		return ret1(st, PtrV{})
	}
	natives["(*runtime.Func).Name"] = func(w *Worker, st *State, args []Value, fv *FuncV, depth int) []Outcome {
		return ret1(st, StrV{s: "func"})
	}
	natives["strconv.ParseInt"] = func(w *Worker, st *State, args []Value, fv *FuncV, depth int) []Outcome {
		sv := args[0].(StrV)
		if !sv.isConcrete() {
			return []Outcome{{st: st, pan: &PanicV{runtime: "CUT: strconv.ParseInt slow path (empty or >=19 characters) on a symbolic string", site: "strconv"}}}
		}
		v, err := strconv.ParseInt(sv.s, int(concInt(args[1], "base")), int(concInt(args[2], "bitSize")))
		if err != nil {
			e := w.newError(st, StrV{s: err.Error()}, depth)
			return []Outcome{{st: e.st, ret: TupleV{mkInt(v), e.ret}}}
		}
		return ret1(st, TupleV{mkInt(v), IfaceV{}})
	}
	// sync/atomic on one thread of control = plain memory operations (the code under test starts no goroutine;
	// sync.Once and sync.Mutex fast paths reach these).
	atomicLoad := func(w *Worker, st *State, args []Value, fv *FuncV, depth int) []Outcome {
		return ret1(st, st.load(args[0].(PtrV)))
	}
	atomicStore := func(w *Worker, st *State, args []Value, fv *FuncV, depth int) []Outcome {
		st.store(args[0].(PtrV), args[1])
		return ret1(st, nil)
	}
	atomicCAS := func(w *Worker, st *State, args []Value, fv *FuncV, depth int) []Outcome {
		p := args[0].(PtrV)
		cur, okc := st.load(p).(*Term)
		old, oko := args[1].(*Term)
		if !okc || !oko || !cur.isConst() || !old.isConst() {
			unsupported("sync/atomic.CompareAndSwap on a symbolic word")
		}
		if concInt(cur, "atomic word") == concInt(old, "atomic old") {
			st.store(p, args[2])
			return ret1(st, mkBool(true))
		}
		return ret1(st, mkBool(false))
	}
	atomicAdd := func(w *Worker, st *State, args []Value, fv *FuncV, depth int) []Outcome {
		p := args[0].(PtrV)
		nv := mkAdd(st.load(p).(*Term), args[1].(*Term))
		st.store(p, nv)
		return ret1(st, nv)
	}
	for _, t := range []string{"Int32", "Uint32", "Int64", "Uint64", "Uintptr"} {
		natives["sync/atomic.Load"+t] = atomicLoad
		natives["sync/atomic.Store"+t] = atomicStore
		natives["sync/atomic.CompareAndSwap"+t] = atomicCAS
		natives["sync/atomic.Add"+t] = atomicAdd
	}
	ident := func(w *Worker, st *State, args []Value, fv *FuncV, depth int) []Outcome { return ret1(st, args[0]) }
	natives["internal/stringslite.Clone"] = ident
	natives["strings.Clone"] = ident
	natives["strconv.cloneString"] = ident
}

var _ = strings.Contains

// deepEqual: reflect.DeepEqual over engine values (DESIGN §2.5): structural
// equality through pointers, slices and interfaces; the result is a term.
func (w *Worker) deepEqual(st *State, a, b Value, depth int) *Term {
	if depth > 20 {
		unsupported("reflect.DeepEqual: nesting too deep")
	}
	switch x := a.(type) {
	case *Term:
		y, ok := b.(*Term)
		if !ok {
			return tFalse
		}
		return mkEq(x, y)
	case StrV, float64, nil, OpaqueV:
		return w.valuesEqual(st, a, b)
	case *StructV:
		y, ok := b.(*StructV)
		if !ok || len(x.f) != len(y.f) {
			return tFalse
		}
		cs := make([]*Term, len(x.f))
		for i := range cs {
			cs[i] = w.deepEqual(st, x.f[i], y.f[i], depth+1)
		}
		return mkAnd(cs...)
	case *ArrV:
		y, ok := b.(*ArrV)
		if !ok || len(x.e) != len(y.e) {
			return tFalse
		}
		cs := make([]*Term, len(x.e))
		for i := range cs {
			cs[i] = w.deepEqual(st, x.e[i], y.e[i], depth+1)
		}
		return mkAnd(cs...)
	case SliceV:
		y, ok := b.(SliceV)
		if !ok {
			return tFalse
		}
		if (x.obj == 0) != (y.obj == 0) || x.len != y.len {
			return tFalse
		}
		ea, eb := w.sliceElems(st, x), w.sliceElems(st, y)
		cs := make([]*Term, len(ea))
		for i := range cs {
			cs[i] = w.deepEqual(st, ea[i], eb[i], depth+1)
		}
		return mkAnd(cs...)
	case IfaceV:
		y, ok := b.(IfaceV)
		if !ok {
			return tFalse
		}
		if x.t == nil || y.t == nil {
			return mkBool(x.t == nil && y.t == nil)
		}
		if !types.Identical(x.t, y.t) {
			return tFalse
		}
		return w.deepEqual(st, x.v, y.v, depth+1)
	case PtrV:
		y, ok := b.(PtrV)
		if !ok {
			return tFalse
		}
		if x.isNil() || y.isNil() {
			return mkBool(x.isNil() && y.isNil())
		}
		if samePtr(x, y) {
			return tTrue
		}
		return w.deepEqual(st, st.load(x), st.load(y), depth+1)
	case MapV:
		y, ok := b.(MapV)
		if !ok {
			return tFalse
		}
		if x.obj == 0 || y.obj == 0 {
			return mkBool(x.obj == y.obj)
		}
		unsupported("reflect.DeepEqual on maps")
	case *FuncV:
		y, _ := b.(*FuncV)
		return mkBool(x == nil && y == nil)
	}
	unsupported("reflect.DeepEqual on %T", a)
	return nil
}

func init() {
	natives["reflect.DeepEqual"] = func(w *Worker, st *State, args []Value, fv *FuncV, depth int) []Outcome {
		return ret1(st, w.deepEqual(st, args[0], args[1], 0))
	}
}
