package main

// Terms: hash-consed SMT expressions over Int and Bool with interval tracking.
// Go integers are encoded as mathematical Int; the executor adds no-overflow
// obligations where the interval does not prove that the machine word cannot
// wrap (DESIGN §2.2/2.4).

import (
	"fmt"
	"math"
	"sort"
	"strconv"
	"strings"
	"sync"
	"sync/atomic"
)

type Sort uint8

const (
	SInt Sort = iota
	SBool
)

type Op uint8

const (
	OpConst Op = iota // Int const (k) or Bool const (k!=0)
	OpVar
	OpAdd
	OpSub
	OpMul
	OpDiv // SMT div (euclidean), only emitted for non-negative dividend and positive const divisor
	OpMod // SMT mod
	OpNeg
	OpIte
	OpEq
	OpLt
	OpLe
	OpAnd
	OpOr
	OpNot
	OpUF // uninterpreted function application: name(args)
)

const (
	negInf = int64(-1) << 62
	posInf = int64(1) << 62
)

type Term struct {
	id   int32
	op   Op
	sort Sort
	k    int64
	name string
	args []*Term
	lo   int64 // interval (Int sort); <=negInf / >=posInf mean unbounded
	hi   int64
}

func (t *Term) isConst() bool { return t.op == OpConst }
func (t *Term) isTrue() bool  { return t.op == OpConst && t.sort == SBool && t.k != 0 }
func (t *Term) isFalse() bool { return t.op == OpConst && t.sort == SBool && t.k == 0 }

var (
	termSeq    int32
	termShards [64]struct {
		mu sync.Mutex
		m  map[string]*Term
	}
	smallConsts [1 << 12]*Term // -1024 .. 3071
	tTrue       *Term
	tFalse      *Term
	allTermsMu  sync.Mutex
	varDecls    sync.Map // name -> *Term
)

func init() {
	for i := range termShards {
		termShards[i].m = make(map[string]*Term)
	}
	for i := range smallConsts {
		v := int64(i) - 1024
		smallConsts[i] = &Term{id: atomic.AddInt32(&termSeq, 1), op: OpConst, sort: SInt, k: v, lo: v, hi: v}
	}
	tTrue = &Term{id: atomic.AddInt32(&termSeq, 1), op: OpConst, sort: SBool, k: 1}
	tFalse = &Term{id: atomic.AddInt32(&termSeq, 1), op: OpConst, sort: SBool, k: 0}
}

func fnv(s string) uint32 {
	h := uint32(2166136261)
	for i := 0; i < len(s); i++ {
		h ^= uint32(s[i])
		h *= 16777619
	}
	return h
}

func intern(t *Term) *Term {
	var sb strings.Builder
	sb.Grow(32)
	sb.WriteByte(byte('a' + t.op))
	sb.WriteByte(byte('0' + t.sort))
	if t.op == OpConst {
		sb.WriteString(strconv.FormatInt(t.k, 10))
	}
	if t.name != "" {
		sb.WriteString(t.name)
		sb.WriteByte('|')
		// the interval of a variable / UF application is trusted by the simplifier:
		// the same name with another declared range must be a different term
		sb.WriteString(strconv.FormatInt(t.lo, 36))
		sb.WriteByte(':')
		sb.WriteString(strconv.FormatInt(t.hi, 36))
		sb.WriteByte('|')
	}
	for _, a := range t.args {
		sb.WriteString(strconv.FormatInt(int64(a.id), 36))
		sb.WriteByte(',')
	}
	key := sb.String()
	sh := &termShards[fnv(key)&63]
	sh.mu.Lock()
	if old, ok := sh.m[key]; ok {
		sh.mu.Unlock()
		return old
	}
	t.id = atomic.AddInt32(&termSeq, 1)
	sh.m[key] = t
	sh.mu.Unlock()
	return t
}

func mkInt(v int64) *Term {
	if v >= -1024 && v < 3072 {
		return smallConsts[v+1024]
	}
	return intern(&Term{op: OpConst, sort: SInt, k: v, lo: clampInf(v), hi: clampInf(v)})
}

func clampInf(v int64) int64 {
	if v < negInf {
		return negInf
	}
	if v > posInf {
		return posInf
	}
	return v
}

func mkBool(b bool) *Term {
	if b {
		return tTrue
	}
	return tFalse
}

func mkVar(name string, s Sort, lo, hi int64) *Term {
	t := intern(&Term{op: OpVar, sort: s, name: name, lo: clampInf(lo), hi: clampInf(hi)})
	return t
}

func mkUF(name string, s Sort, args []*Term) *Term {
	return intern(&Term{op: OpUF, sort: s, name: name, args: args, lo: negInf, hi: posInf})
}

func satAdd(a, b int64) int64 {
	if a <= negInf || b <= negInf {
		if a >= posInf || b >= posInf {
			return 0 // caller handles
		}
		return negInf
	}
	if a >= posInf || b >= posInf {
		return posInf
	}
	return clampInf(a + b)
}

func satNeg(a int64) int64 {
	if a <= negInf {
		return posInf
	}
	if a >= posInf {
		return negInf
	}
	return -a
}

func satMul(a, b int64) int64 {
	if a == 0 || b == 0 {
		return 0
	}
	neg := (a < 0) != (b < 0)
	if a <= negInf || a >= posInf || b <= negInf || b >= posInf {
		if neg {
			return negInf
		}
		return posInf
	}
	aa, bb := a, b
	if aa < 0 {
		aa = -aa
	}
	if bb < 0 {
		bb = -bb
	}
	if aa > posInf/bb {
		if neg {
			return negInf
		}
		return posInf
	}
	return a * b
}

func min64(a, b int64) int64 {
	if a < b {
		return a
	}
	return b
}
func max64(a, b int64) int64 {
	if a > b {
		return a
	}
	return b
}

func mkAdd(a, b *Term) *Term {
	if a.isConst() && b.isConst() {
		return mkInt(a.k + b.k)
	}
	if a.isConst() {
		a, b = b, a
	}
	if b.isConst() {
		if b.k == 0 {
			return a
		}
		// (x + c1) + c2
		if a.op == OpAdd && a.args[1].isConst() {
			return mkAdd(a.args[0], mkInt(a.args[1].k+b.k))
		}
		if a.op == OpSub && a.args[1].isConst() {
			return mkAdd(a.args[0], mkInt(b.k-a.args[1].k))
		}
	}
	// (x div c)*c + (x mod c)  ==  x
	for k := 0; k < 2; k++ {
		m, r := a, b
		if k == 1 {
			m, r = b, a
		}
		if m.op == OpMul && r.op == OpMod && m.args[1].isConst() && r.args[1] == m.args[1] &&
			m.args[0].op == OpDiv && m.args[0].args[0] == r.args[0] && m.args[0].args[1] == m.args[1] {
			return r.args[0]
		}
	}
	return intern(&Term{op: OpAdd, sort: SInt, args: []*Term{a, b}, lo: satAdd(a.lo, b.lo), hi: satAdd(a.hi, b.hi)})
}

func mkSub(a, b *Term) *Term {
	if a == b {
		return mkInt(0)
	}
	if b.isConst() {
		if a.isConst() {
			return mkInt(a.k - b.k)
		}
		return mkAdd(a, mkInt(-b.k))
	}
	// (x + c) - x
	if a.op == OpAdd && a.args[0] == b {
		return a.args[1]
	}
	return intern(&Term{op: OpSub, sort: SInt, args: []*Term{a, b}, lo: satAdd(a.lo, satNeg(b.hi)), hi: satAdd(a.hi, satNeg(b.lo))})
}

func mkNeg(a *Term) *Term {
	if a.isConst() {
		return mkInt(-a.k)
	}
	if a.op == OpNeg {
		return a.args[0]
	}
	return intern(&Term{op: OpNeg, sort: SInt, args: []*Term{a}, lo: satNeg(a.hi), hi: satNeg(a.lo)})
}

func mkMul(a, b *Term) *Term {
	if a.isConst() && b.isConst() {
		return mkInt(a.k * b.k)
	}
	if a.isConst() {
		a, b = b, a
	}
	if b.isConst() {
		if b.k == 0 {
			return mkInt(0)
		}
		if b.k == 1 {
			return a
		}
		if b.k == -1 {
			return mkNeg(a)
		}
	}
	c := []int64{satMul(a.lo, b.lo), satMul(a.lo, b.hi), satMul(a.hi, b.lo), satMul(a.hi, b.hi)}
	lo, hi := c[0], c[0]
	for _, v := range c[1:] {
		lo, hi = min64(lo, v), max64(hi, v)
	}
	return intern(&Term{op: OpMul, sort: SInt, args: []*Term{a, b}, lo: lo, hi: hi})
}

// mkEDiv / mkEMod: SMT-LIB div/mod (floor for positive divisors).
func mkEDiv(a, b *Term) *Term {
	if a.isConst() && b.isConst() && b.k > 0 {
		q := a.k / b.k
		if a.k%b.k < 0 {
			q--
		}
		return mkInt(q)
	}
	lo, hi := negInf, posInf
	if b.isConst() && b.k > 0 {
		if a.lo > negInf {
			lo = floorDiv(a.lo, b.k)
		}
		if a.hi < posInf {
			hi = floorDiv(a.hi, b.k)
		}
	}
	return intern(&Term{op: OpDiv, sort: SInt, args: []*Term{a, b}, lo: lo, hi: hi})
}

func floorDiv(a, b int64) int64 {
	q := a / b
	if a%b != 0 && (a < 0) != (b < 0) {
		q--
	}
	return q
}

func mkEMod(a, b *Term) *Term {
	if a.isConst() && b.isConst() && b.k > 0 {
		r := a.k % b.k
		if r < 0 {
			r += b.k
		}
		return mkInt(r)
	}
	lo, hi := int64(0), posInf
	if b.hi < posInf && b.hi > 0 {
		hi = b.hi - 1
	}
	if b.isConst() && b.k > 0 && a.lo >= 0 && a.hi < b.k {
		return a
	}
	return intern(&Term{op: OpMod, sort: SInt, args: []*Term{a, b}, lo: lo, hi: hi})
}

func mkIte(c, a, b *Term) *Term {
	if c.isTrue() {
		return a
	}
	if c.isFalse() {
		return b
	}
	if a == b {
		return a
	}
	if a.sort == SBool {
		if a.isTrue() && b.isFalse() {
			return c
		}
		if a.isFalse() && b.isTrue() {
			return mkNot(c)
		}
		if a.isTrue() {
			return mkOr(c, b)
		}
		if a.isFalse() {
			return mkAnd(mkNot(c), b)
		}
		if b.isTrue() {
			return mkOr(mkNot(c), a)
		}
		if b.isFalse() {
			return mkAnd(c, a)
		}
		return intern(&Term{op: OpIte, sort: SBool, args: []*Term{c, a, b}})
	}
	return intern(&Term{op: OpIte, sort: SInt, args: []*Term{c, a, b}, lo: min64(a.lo, b.lo), hi: max64(a.hi, b.hi)})
}

func mkEq(a, b *Term) *Term {
	if a == b {
		return tTrue
	}
	if a.sort == SBool {
		if a.isConst() {
			a, b = b, a
		}
		if b.isTrue() {
			return a
		}
		if b.isFalse() {
			return mkNot(a)
		}
		if a.id > b.id {
			a, b = b, a
		}
		return intern(&Term{op: OpEq, sort: SBool, args: []*Term{a, b}})
	}
	if a.isConst() && b.isConst() {
		return mkBool(a.k == b.k)
	}
	if a.hi < b.lo || b.hi < a.lo {
		return tFalse
	}
	if a.isConst() {
		a, b = b, a
	}
	// ite(c, k1, k2) == k
	if b.isConst() && a.op == OpIte && a.args[1].isConst() && a.args[2].isConst() {
		return mkIte(a.args[0], mkBool(a.args[1].k == b.k), mkBool(a.args[2].k == b.k))
	}
	if !b.isConst() && a.id > b.id {
		a, b = b, a
	}
	return intern(&Term{op: OpEq, sort: SBool, args: []*Term{a, b}})
}

func mkLt(a, b *Term) *Term {
	if a == b {
		return tFalse
	}
	if a.isConst() && b.isConst() {
		return mkBool(a.k < b.k)
	}
	if a.hi < b.lo && a.hi > negInf && b.lo < posInf {
		return tTrue
	}
	if a.lo >= b.hi && a.lo > negInf && b.hi < posInf {
		return tFalse
	}
	return intern(&Term{op: OpLt, sort: SBool, args: []*Term{a, b}})
}

func mkLe(a, b *Term) *Term {
	if a == b {
		return tTrue
	}
	if a.isConst() && b.isConst() {
		return mkBool(a.k <= b.k)
	}
	if a.hi <= b.lo && a.hi > negInf && b.lo < posInf {
		return tTrue
	}
	if a.lo > b.hi && a.lo > negInf && b.hi < posInf {
		return tFalse
	}
	return intern(&Term{op: OpLe, sort: SBool, args: []*Term{a, b}})
}

func mkNot(a *Term) *Term {
	switch {
	case a.isTrue():
		return tFalse
	case a.isFalse():
		return tTrue
	case a.op == OpNot:
		return a.args[0]
	case a.op == OpLt:
		return mkLe(a.args[1], a.args[0])
	case a.op == OpLe:
		return mkLt(a.args[1], a.args[0])
	}
	return intern(&Term{op: OpNot, sort: SBool, args: []*Term{a}})
}

func mkAnd(ts ...*Term) *Term {
	var out []*Term
	for _, t := range ts {
		if t.isFalse() {
			return tFalse
		}
		if t.isTrue() {
			continue
		}
		if t.op == OpAnd {
			out = append(out, t.args...)
		} else {
			out = append(out, t)
		}
	}
	out = dedupTerms(out)
	for i, t := range out {
		for _, u := range out[i+1:] {
			if (t.op == OpNot && t.args[0] == u) || (u.op == OpNot && u.args[0] == t) {
				return tFalse
			}
		}
		if len(out) > 16 {
			break
		}
	}
	switch len(out) {
	case 0:
		return tTrue
	case 1:
		return out[0]
	}
	return intern(&Term{op: OpAnd, sort: SBool, args: out})
}

func mkOr(ts ...*Term) *Term {
	var out []*Term
	for _, t := range ts {
		if t.isTrue() {
			return tTrue
		}
		if t.isFalse() {
			continue
		}
		if t.op == OpOr {
			out = append(out, t.args...)
		} else {
			out = append(out, t)
		}
	}
	out = dedupTerms(out)
	for i, t := range out {
		for _, u := range out[i+1:] {
			if (t.op == OpNot && t.args[0] == u) || (u.op == OpNot && u.args[0] == t) {
				return tTrue
			}
		}
		if len(out) > 16 {
			break
		}
	}
	switch len(out) {
	case 0:
		return tFalse
	case 1:
		return out[0]
	}
	return intern(&Term{op: OpOr, sort: SBool, args: out})
}

func dedupTerms(ts []*Term) []*Term {
	if len(ts) < 2 {
		return ts
	}
	out := make([]*Term, len(ts))
	copy(out, ts)
	sort.Slice(out, func(i, j int) bool { return out[i].id < out[j].id })
	j := 0
	for i, t := range out {
		if i == 0 || t != out[j-1] {
			out[j] = t
			j++
		}
	}
	return out[:j]
}

// ---- SMT-LIB printing -----------------------------------------------------

func smtInt(v int64) string {
	if v < 0 {
		if v == math.MinInt64 {
			return "(- 9223372036854775808)"
		}
		return "(- " + strconv.FormatInt(-v, 10) + ")"
	}
	return strconv.FormatInt(v, 10)
}

func smtName(t *Term) string {
	switch t.op {
	case OpConst:
		if t.sort == SBool {
			if t.k != 0 {
				return "true"
			}
			return "false"
		}
		return smtInt(t.k)
	case OpVar:
		return "|" + t.name + "|"
	}
	return "t" + strconv.Itoa(int(t.id))
}

func smtSort(s Sort) string {
	if s == SBool {
		return "Bool"
	}
	return "Int"
}

var opNames = map[Op]string{OpAdd: "+", OpSub: "-", OpMul: "*", OpDiv: "div", OpMod: "mod", OpNeg: "-", OpIte: "ite",
	OpEq: "=", OpLt: "<", OpLe: "<=", OpAnd: "and", OpOr: "or", OpNot: "not"}

// smtBody prints the defining expression of a non-leaf term over child names.
func smtBody(t *Term) string {
	if t.op == OpUF && len(t.args) == 0 {
		return "|" + t.name + "|"
	}
	var sb strings.Builder
	sb.WriteByte('(')
	if t.op == OpUF {
		sb.WriteString("|" + t.name + "|")
	} else {
		sb.WriteString(opNames[t.op])
	}
	for _, a := range t.args {
		sb.WriteByte(' ')
		sb.WriteString(smtName(a))
	}
	sb.WriteByte(')')
	return sb.String()
}

// String gives a fully expanded (debug) rendering, depth-limited.
func (t *Term) String() string { return t.render(6) }

func (t *Term) render(d int) string {
	switch t.op {
	case OpConst:
		if t.sort == SBool {
			return strconv.FormatBool(t.k != 0)
		}
		return strconv.FormatInt(t.k, 10)
	case OpVar:
		return t.name
	}
	if d == 0 {
		return "…"
	}
	var sb strings.Builder
	sb.WriteByte('(')
	if t.op == OpUF {
		sb.WriteString(t.name)
	} else {
		sb.WriteString(opNames[t.op])
	}
	for _, a := range t.args {
		sb.WriteByte(' ')
		sb.WriteString(a.render(d - 1))
	}
	sb.WriteByte(')')
	return sb.String()
}

// ---- evaluation under a model ----------------------------------------------

type Model struct {
	vals map[string]int64 // var name -> value (bools as 0/1)
	uf   map[string]int64 // "name(args)" -> value, assigned lazily (default 0)
}

type evalCtx struct {
	m    *Model
	memo map[int32]int64
}

func (m *Model) eval(t *Term) int64 {
	c := evalCtx{m: m, memo: map[int32]int64{}}
	return c.ev(t)
}

func b2i(b bool) int64 {
	if b {
		return 1
	}
	return 0
}

func (c *evalCtx) ev(t *Term) int64 {
	switch t.op {
	case OpConst:
		return t.k
	case OpVar:
		return c.m.vals[t.name]
	}
	if v, ok := c.memo[t.id]; ok {
		return v
	}
	var r int64
	switch t.op {
	case OpAdd:
		r = c.ev(t.args[0]) + c.ev(t.args[1])
	case OpSub:
		r = c.ev(t.args[0]) - c.ev(t.args[1])
	case OpMul:
		r = c.ev(t.args[0]) * c.ev(t.args[1])
	case OpNeg:
		r = -c.ev(t.args[0])
	case OpDiv:
		b := c.ev(t.args[1])
		if b == 0 {
			r = 0
		} else {
			a := c.ev(t.args[0])
			r = a / b
			if a%b < 0 {
				if b > 0 {
					r--
				} else {
					r++
				}
			}
		}
	case OpMod:
		b := c.ev(t.args[1])
		if b == 0 {
			r = c.ev(t.args[0])
		} else {
			r = c.ev(t.args[0]) % b
			if r < 0 {
				if b > 0 {
					r += b
				} else {
					r -= b
				}
			}
		}
	case OpIte:
		if c.ev(t.args[0]) != 0 {
			r = c.ev(t.args[1])
		} else {
			r = c.ev(t.args[2])
		}
	case OpEq:
		r = b2i(c.ev(t.args[0]) == c.ev(t.args[1]))
	case OpLt:
		r = b2i(c.ev(t.args[0]) < c.ev(t.args[1]))
	case OpLe:
		r = b2i(c.ev(t.args[0]) <= c.ev(t.args[1]))
	case OpAnd:
		r = 1
		for _, a := range t.args {
			if c.ev(a) == 0 {
				r = 0
				break
			}
		}
	case OpOr:
		r = 0
		for _, a := range t.args {
			if c.ev(a) != 0 {
				r = 1
				break
			}
		}
	case OpNot:
		r = b2i(c.ev(t.args[0]) == 0)
	case OpUF:
		key := t.name + "("
		for _, a := range t.args {
			key += strconv.FormatInt(c.ev(a), 10) + ","
		}
		key += ")"
		r = c.m.uf[key]
	default:
		panic(fmt.Sprintf("eval: op %d", t.op))
	}
	c.memo[t.id] = r
	return r
}

// collectVars gathers variable and UF-application leaves reachable from ts.
func collectVars(ts []*Term, seen map[int32]bool, vars *[]*Term, ufs *[]*Term) {
	for _, t := range ts {
		if t.op == OpConst || seen[t.id] {
			continue
		}
		seen[t.id] = true
		if t.op == OpVar {
			*vars = append(*vars, t)
			continue
		}
		if t.op == OpUF {
			*ufs = append(*ufs, t)
		}
		collectVars(t.args, seen, vars, ufs)
	}
}
