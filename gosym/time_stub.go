package main

// time stub: seqio.Date.ToTime / time.Time.Format("02-Jan-2006") / Year/Month/Day.
// The calendar itself (time.Date normalisation) is not modelled: a Date is
// formatted field by field, which equals the real behaviour for valid dates
// (the harnesses assume a valid calendar date where they print one).

import (
	"fmt"
	"time"
)

type timeObj struct{ y, m, d *Term }

var monthNames = []string{"Jan", "Feb", "Mar", "Apr", "May", "Jun", "Jul", "Aug", "Sep", "Oct", "Nov", "Dec"}

func init() {
	natives["(github.com/go-gts/gts/seqio.Date).ToTime"] = func(w *Worker, st *State, args []Value, fv *FuncV, depth int) []Outcome {
		d := args[0].(*StructV)
		y, m, dd := d.f[0].(*Term), d.f[1].(*Term), d.f[2].(*Term)
		return ret1(st, &StructV{f: []Value{OpaqueV{kind: "time", v: fmt.Sprintf("%d/%d/%d", y.id, m.id, dd.id)}, OpaqueV{kind: "timeobj", v: &timeObj{y, m, dd}}, PtrV{}}})
	}
	tobj := func(v Value) *timeObj {
		s, ok := v.(*StructV)
		if !ok || len(s.f) < 2 {
			unsupported("time.Time value not produced by the Date.ToTime stub")
		}
		o, ok := s.f[1].(OpaqueV)
		if !ok || o.kind != "timeobj" {
			unsupported("time.Time value not produced by the Date.ToTime stub")
		}
		return o.v.(*timeObj)
	}
	natives["(time.Time).Year"] = func(w *Worker, st *State, args []Value, fv *FuncV, depth int) []Outcome {
		return ret1(st, tobj(args[0]).y)
	}
	natives["(time.Month).String"] = func(w *Worker, st *State, args []Value, fv *FuncV, depth int) []Outcome {
		// concrete months only (package initialisers that build month tables)
		return ret1(st, StrV{s: time.Month(concInt(args[0], "time.Month.String")).String()})
	}
	natives["(time.Time).Month"] = func(w *Worker, st *State, args []Value, fv *FuncV, depth int) []Outcome {
		return ret1(st, tobj(args[0]).m)
	}
	natives["(time.Time).Day"] = func(w *Worker, st *State, args []Value, fv *FuncV, depth int) []Outcome {
		return ret1(st, tobj(args[0]).d)
	}
	natives["(time.Time).Format"] = func(w *Worker, st *State, args []Value, fv *FuncV, depth int) []Outcome {
		t := tobj(args[0])
		layout := concStr(args[1], "time layout")
		if t.y.isConst() && t.m.isConst() && t.d.isConst() {
			return ret1(st, StrV{s: time.Date(int(t.y.k), time.Month(t.m.k), int(t.d.k), 0, 0, 0, 0, time.UTC).Format(layout)})
		}
		if layout != "02-Jan-2006" {
			unsupported("time.Format layout %q with symbolic date", layout)
		}
		// symbolic valid date: DD-Mon-YYYY, month by fork, day two digits, year four digits (assumed 1000..9999)
		var outs []Outcome
		for mi := 1; mi <= 12; mi++ {
			c := mkEq(t.m, mkInt(int64(mi)))
			if c.isFalse() {
				continue
			}
			r, m := w.solver.check(append(st.pc[:len(st.pc):len(st.pc)], c), true)
			if r == Unsat {
				continue
			}
			s := st.fork()
			s.assume(c)
			s.model = m
			d1, d0 := mkEDiv(t.d, mkInt(10)), mkEMod(t.d, mkInt(10))
			var ts []*Term
			ts = append(ts, mkAdd(d1, mkInt('0')), mkAdd(d0, mkInt('0')), mkInt('-'))
			ts = append(ts, termsOfString(monthNames[mi-1])...)
			ts = append(ts, mkInt('-'))
			pw := int64(1000)
			for k := 0; k < 4; k++ {
				ts = append(ts, mkAdd(mkEMod(mkEDiv(t.y, mkInt(pw)), mkInt(10)), mkInt('0')))
				pw /= 10
			}
			if !(t.y.lo >= 1000 && t.y.hi <= 9999 && t.d.lo >= 0 && t.d.hi <= 99) {
				unsupported("time.Format: symbolic date must have year in [1000,9999] and day in [1,31]; got y=%s[%d,%d] d=%s[%d,%d]", t.y, t.y.lo, t.y.hi, t.d, t.d.lo, t.d.hi)
			}
			outs = append(outs, Outcome{st: s, ret: strFromTerms(ts)})
		}
		return outs
	}
}
