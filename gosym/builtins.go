package main

import (
	"fmt"
)

type nativeFn func(w *Worker, st *State, args []Value, fv *FuncV, depth int) []Outcome

var natives = map[string]nativeFn{}

func ret1(st *State, v Value) []Outcome { return []Outcome{{st: st, ret: v}} }

func panicOut(st *State, kind string) []Outcome {
	return []Outcome{{st: st, pan: &PanicV{runtime: kind, site: "builtin"}}}
}

func lenOf(st *State, v Value) int {
	switch x := v.(type) {
	case StrV:
		return x.length()
	case SliceV:
		return x.len
	case MapV:
		if x.obj == 0 {
			return 0
		}
		return len(st.get(x.obj).(*MapObj).keys)
	case PtrV:
		if x.isNil() {
			return 0
		}
		return len(navigate(st.get(x.obj), x.path).(*ArrV).e)
	case *ArrV:
		return len(x.e)
	case OpaqueV:
		return 0
	}
	panic(engineErr(fmt.Sprintf("len of %T", v)))
}

// appendValues implements append's aliasing rule: in place iff len+k <= cap.
func appendValues(st *State, s SliceV, elems []Value, zero Value) SliceV {
	k := len(elems)
	if k == 0 {
		return s
	}
	if s.obj != 0 && s.len+k <= s.cap {
		arr := st.get(s.obj).(*ArrV)
		e := make([]Value, len(arr.e))
		copy(e, arr.e)
		copy(e[s.off+s.len:], elems)
		st.set(s.obj, &ArrV{e})
		return SliceV{obj: s.obj, off: s.off, len: s.len + k, cap: s.cap}
	}
	// grow: new array; capacity follows a simple doubling rule (the exact
	// runtime growth formula is not part of any property; spare capacity > 0
	// is what matters for aliasing behaviour).
	newLen := s.len + k
	newCap := s.cap * 2
	if newCap < newLen {
		newCap = newLen
	}
	e := make([]Value, newCap)
	if s.obj != 0 {
		arr := st.get(s.obj).(*ArrV)
		copy(e, arr.e[s.off:s.off+s.len])
	}
	copy(e[s.len:], elems)
	for i := newLen; i < newCap; i++ {
		e[i] = zero
	}
	id := st.alloc(&ArrV{e})
	return SliceV{obj: id, off: 0, len: newLen, cap: newCap}
}

func copyValues(st *State, dst SliceV, src []Value) int {
	n := dst.len
	if len(src) < n {
		n = len(src)
	}
	if n == 0 {
		return 0
	}
	arr := st.get(dst.obj).(*ArrV)
	e := make([]Value, len(arr.e))
	copy(e, arr.e)
	// src may alias dst's array: src slice was taken from an immutable ArrV snapshot, so plain copy is right
	copy(e[dst.off:dst.off+n], src[:n])
	st.set(dst.obj, &ArrV{e})
	return n
}

func strToValues(s StrV) []Value {
	bs := s.bytes()
	out := make([]Value, len(bs))
	for i := range bs {
		out[i] = bs[i]
	}
	return out
}

func init() {
	natives["builtin:len"] = func(w *Worker, st *State, args []Value, fv *FuncV, depth int) []Outcome {
		return ret1(st, mkInt(int64(lenOf(st, args[0]))))
	}
	natives["builtin:cap"] = func(w *Worker, st *State, args []Value, fv *FuncV, depth int) []Outcome {
		switch x := args[0].(type) {
		case SliceV:
			return ret1(st, mkInt(int64(x.cap)))
		}
		return ret1(st, mkInt(int64(lenOf(st, args[0]))))
	}
	natives["builtin:append"] = func(w *Worker, st *State, args []Value, fv *FuncV, depth int) []Outcome {
		s := args[0].(SliceV)
		var elems []Value
		var zero Value = mkInt(0)
		switch t := args[1].(type) {
		case SliceV:
			elems = append(elems, w.sliceElems(st, t)...)
		case StrV:
			elems = strToValues(t)
		default:
			panic(engineErr(fmt.Sprintf("append arg %T", args[1])))
		}
		if len(elems) > 0 {
			zero = zeroLike(elems[0])
		}
		return ret1(st, appendValues(st, s, elems, zero))
	}
	natives["builtin:copy"] = func(w *Worker, st *State, args []Value, fv *FuncV, depth int) []Outcome {
		d := args[0].(SliceV)
		var src []Value
		switch t := args[1].(type) {
		case SliceV:
			src = append(src, w.sliceElems(st, t)...)
		case StrV:
			src = strToValues(t)
		}
		return ret1(st, mkInt(int64(copyValues(st, d, src))))
	}
	natives["builtin:delete"] = func(w *Worker, st *State, args []Value, fv *FuncV, depth int) []Outcome {
		m := args[0].(MapV)
		if m.obj == 0 {
			return ret1(st, nil)
		}
		mo := st.get(m.obj).(*MapObj)
		for i, k := range mo.keys {
			c := w.valuesEqual(st, k, args[1])
			if c.isTrue() {
				nm := &MapObj{}
				nm.keys = append(append([]Value{}, mo.keys[:i]...), mo.keys[i+1:]...)
				nm.vals = append(append([]Value{}, mo.vals[:i]...), mo.vals[i+1:]...)
				st.set(m.obj, nm)
				break
			}
			if !c.isFalse() {
				unsupported("delete with symbolic key")
			}
		}
		return ret1(st, nil)
	}
	natives["builtin:print"] = func(w *Worker, st *State, args []Value, fv *FuncV, depth int) []Outcome { return ret1(st, nil) }
	natives["builtin:println"] = natives["builtin:print"]
	natives["builtin:recover"] = func(w *Worker, st *State, args []Value, fv *FuncV, depth int) []Outcome {
		return ret1(st, IfaceV{})
	}
	natives["builtin:ssa:wrapnilchk"] = func(w *Worker, st *State, args []Value, fv *FuncV, depth int) []Outcome {
		if p, ok := args[0].(PtrV); ok && p.isNil() {
			return panicOut(st, "nil pointer dereference (wrapnilchk)")
		}
		return ret1(st, args[0])
	}
	natives["builtin:min"] = func(w *Worker, st *State, args []Value, fv *FuncV, depth int) []Outcome {
		r := args[0].(*Term)
		for _, a := range args[1:] {
			t := a.(*Term)
			r = mkIte(mkLt(t, r), t, r)
		}
		return ret1(st, r)
	}
	natives["builtin:max"] = func(w *Worker, st *State, args []Value, fv *FuncV, depth int) []Outcome {
		r := args[0].(*Term)
		for _, a := range args[1:] {
			t := a.(*Term)
			r = mkIte(mkLt(r, t), t, r)
		}
		return ret1(st, r)
	}
}

func zeroLike(v Value) Value {
	switch x := v.(type) {
	case *Term:
		if x.sort == SBool {
			return tFalse
		}
		return mkInt(0)
	case StrV:
		return StrV{}
	case *StructV:
		f := make([]Value, len(x.f))
		for i := range f {
			f[i] = zeroLike(x.f[i])
		}
		return &StructV{f}
	case *ArrV:
		e := make([]Value, len(x.e))
		for i := range e {
			e[i] = zeroLike(x.e[i])
		}
		return &ArrV{e}
	case PtrV:
		return PtrV{}
	case SliceV:
		return SliceV{}
	case IfaceV:
		return IfaceV{}
	case *FuncV:
		return (*FuncV)(nil)
	case MapV:
		return MapV{}
	case float64:
		return float64(0)
	}
	return nil
}
