package main

import (
	"encoding/json"
	"fmt"
	"os"
	"path/filepath"
	"sort"
	"strings"
	"sync"
	"time"

	"golang.org/x/tools/go/ssa"
)

type CexRec struct {
	Harness string           `json:"harness"`
	Shard   int              `json:"shard"`
	Tier    int              `json:"tier"`
	Label   string           `json:"label"`
	Vars    map[string]int64 `json:"vars"`
	Choices map[string]int   `json:"choices"`
	UF      map[string]int64 `json:"uf"`
	Known   []string         `json:"known_sites,omitempty"`
	Trail   []string         `json:"trail,omitempty"`
	Panic   string           `json:"panic,omitempty"`
	// witness validation
	Obs     []string `json:"predicted_obs,omitempty"`
	Outcome string   `json:"predicted_outcome,omitempty"` // done | panic
	// filled by replay
	Confirmed bool   `json:"confirmed"`
	Native    string `json:"native_output,omitempty"`
}

type JobResult struct {
	mu                                          sync.Mutex
	Harness                                     string
	Shard                                       int
	Status                                      string // ok | unsupported | bound | error
	Msg                                         string
	Obligations                                 int
	Discharged                                  int
	Trivial                                     int
	Overflow                                    int // no-overflow / bounded-quotient obligations discharged
	Inconclusive                                []string
	CrossChecked, CrossAgree, CrossInconclusive int
	Disagree                                    []string
	Unknowns                                    map[string]int
	Covers                                      map[string]int
	Cuts                                        map[string]int
	Vars                                        map[string]bool
	Cex                                         []*CexRec
	Witnesses                                   []*CexRec
	Proved                                      map[string]int
	Paths                                       int
	PanicPaths                                  int
	Steps                                       int64
	States                                      int64
	Branches                                    int64
	Merges                                      int64
	Solver                                      SolverStats
	Fns                                         map[string]int
	Wall                                        float64
	sampleQ                                     []string
}

func (j *JobResult) noteUnknown(what string) {
	if j.Unknowns == nil {
		j.Unknowns = map[string]int{}
	}
	j.Unknowns[what]++
}
func (j *JobResult) overflow(what string, r Result) {}
func (j *JobResult) cut(why string) {
	if j.Cuts == nil {
		j.Cuts = map[string]int{}
	}
	j.Cuts[why]++
}
func (j *JobResult) cover(label string) {
	if j.Covers == nil {
		j.Covers = map[string]int{}
	}
	j.Covers[label]++
}
func (j *JobResult) noteVar(name string) {
	if j.Vars == nil {
		j.Vars = map[string]bool{}
	}
	j.Vars[name] = true
}
func (j *JobResult) noteProved(label string, st *State, q []*Term) {
	if j.Proved == nil {
		j.Proved = map[string]int{}
	}
	j.Proved[label]++
	if len(j.sampleQ) < 2 {
		j.sampleQ = append(j.sampleQ, fmt.Sprintf("%s: pc[%d conjuncts] ∧ ¬(%s) unsat", label, len(q)-1, mkNot(q[len(q)-1]).render(5)))
	}
}

func trailChoices(trail []string) map[string]int {
	m := map[string]int{}
	for _, t := range trail {
		if strings.HasPrefix(t, "c:") {
			i := strings.LastIndex(t, "=")
			var k int
			fmt.Sscanf(t[i+1:], "%d", &k)
			m[t[2:i]] = k
		}
	}
	return m
}

func (j *JobResult) counterexample(w *Worker, label string, st *State, m *Model, known []string) {
	rec := &CexRec{Harness: j.Harness, Shard: j.Shard, Tier: w.eng.tier, Label: label, Known: known, Choices: trailChoices(st.trail)}
	if m != nil {
		rec.Vars, rec.UF = m.vals, m.uf
	}
	for _, t := range st.trail {
		if !strings.HasPrefix(t, "n:") {
			rec.Trail = append(rec.Trail, t)
		}
	}
	// keep at most 3 per (label, known-ness)
	n := 0
	for _, c := range j.Cex {
		if c.Label == label && (len(c.Known) > 0) == (len(known) > 0) {
			n++
		}
	}
	if n < 3 {
		j.Cex = append(j.Cex, rec)
	} else {
		j.Cex = append(j.Cex, &CexRec{Harness: j.Harness, Shard: j.Shard, Label: label, Known: known, Confirmed: false, Native: "(not kept: more than 3 for this label)"})
	}
}

// labelTerminates: the obligation "every path ends within the per-path step bound"; a counterexample is
// confirmed only by a native run that does not end within nonTerminationTimeout.
const labelTerminates = "terminates-within-step-bound"

// runJob executes one (harness, shard).
func (e *Engine) runJob(h *HarnessSpec, shard, nshards int, solverCmd []string, timeoutMs int, trace bool) (res *JobResult) {
	res = &JobResult{Harness: h.Name, Shard: shard, Status: "ok"}
	t0 := time.Now()
	w := &Worker{eng: e, job: res, shard: shard, nshards: nshards, maxSteps: h.Steps,
		deadline: time.Now().Add(time.Duration(h.Timeout) * time.Second), maxDepth: 400, pathSteps: h.PathSteps, fnSeen: map[*ssa.Function]int{}, noMerge: h.NoMerge, mergeConcrete: h.MergeConcrete, trace: trace}
	w.solver = newSolver(solverCmd, timeoutMs)
	w.scoped = map[string]*ssa.Function{}
	for _, m := range e.scopedModels[h.Pkg] {
		on := h.Models == nil
		for _, g := range h.Models {
			if g == m.group {
				on = true
			}
		}
		if on {
			w.scoped[m.target] = m.fn
		}
	}
	if os.Getenv("VERIF_PROFILE") != "" {
		w.profile = map[string]int{}
	}
	defer func() {
		if w.profile != nil {
			type kv struct {
				k string
				v int
			}
			var kvs []kv
			for k, v := range w.profile {
				kvs = append(kvs, kv{k, v})
			}
			sort.Slice(kvs, func(i, j int) bool { return kvs[i].v > kvs[j].v })
			for i := 0; i < len(kvs) && i < 25; i++ {
				fmt.Printf("  decide %6d %s\n", kvs[i].v, kvs[i].k)
			}
		}
		w.solver.close()
		res.Wall = time.Since(t0).Seconds()
		res.Steps, res.States, res.Branches, res.Merges = w.steps, w.states, w.branches, w.merges
		res.Solver = w.solver.stats
		res.Fns = map[string]int{}
		for fn, n := range w.fnSeen {
			if fn.Pkg != nil && (strings.HasPrefix(fn.Pkg.Pkg.Path(), "github.com/go-") || e.verbose) && !e.harnessFns[fn] && !e.intrinsic[fn] {
				res.Fns[fn.String()] = n
			}
		}
		if r := recover(); r != nil {
			defer func() {
				ps := w.panicStack
				if len(ps) > 6 {
					ps = ps[len(ps)-6:]
				}
				res.Msg += " [in " + strings.Join(ps, " > ") + "]"
			}()
			switch x := r.(type) {
			case Unsupported:
				res.Status, res.Msg = "unsupported", x.msg
			case BoundExceeded:
				res.Status, res.Msg = "bound", x.what
			case PathBound:
				res.Status, res.Msg = "bound", fmt.Sprintf("one path ran more than %d steps", w.pathSteps)
				s2 := newSolver(solverCmd, timeoutMs) // the job's solver is already closed here
				defer s2.close()
				if r, m := s2.check(x.st.pc, true); r == Sat {
					res.Obligations++
					res.counterexample(w, labelTerminates, x.st, m, w.knownHits(x.st, labelTerminates))
				}
			case engineErr:
				res.Status, res.Msg = "error", string(x)
			default:
				res.Status, res.Msg = "error", fmt.Sprintf("%v", r)
				if e.verbose {
					panic(r)
				}
			}
		}
	}()
	st := &State{base: e.base, heap: map[int]Value{}, nextID: e.baseNext, fs: e.baseFS}
	outs := w.call(st, &FuncV{fn: h.Fn}, nil, 0, "harness")
	res.Paths = len(outs)
	for i, o := range outs {
		if o.pan != nil {
			res.PanicPaths++
			// an uncaught panic in a harness is an obligation failure
			r, m := w.solver.check(o.st.pc, true)
			if r == Sat {
				res.Obligations++
				res.counterexample(w, "uncaught-panic", o.st, m, w.knownHits(o.st, "uncaught-panic"))
				res.Cex[len(res.Cex)-1].Panic = o.pan.String()
			}
			continue
		}
		// witness sampling: spread over paths
		if len(res.Witnesses) < e.witnessPerJob && (len(outs) <= e.witnessPerJob || i%(len(outs)/e.witnessPerJob+1) == 0) {
			r, m := w.solver.check(o.st.pc, true)
			if r == Sat && m != nil {
				wrec := &CexRec{Harness: h.Name, Shard: shard, Tier: e.tier, Label: "witness", Vars: m.vals, UF: m.uf, Choices: trailChoices(o.st.trail), Outcome: "done"}
				ok := true
				for _, ob := range o.st.obs {
					s, good := renderObs(m, ob)
					if !good {
						ok = false
						break
					}
					wrec.Obs = append(wrec.Obs, s)
				}
				if ok {
					res.Witnesses = append(res.Witnesses, wrec)
				}
			}
		}
	}
	return res
}

func (w *Worker) knownHits(st *State, label string) []string {
	var hit []string
	for id, flag := range st.sites {
		if flag.isTrue() && w.eng.knownFor(id, label) {
			hit = append(hit, id)
		}
	}
	return hit
}

func renderObs(m *Model, ob obsRec) (string, bool) {
	switch v := ob.val.(type) {
	case *Term:
		x := m.eval(v)
		if v.sort == SBool {
			return fmt.Sprintf("%s=%v", ob.name, x != 0), true
		}
		return fmt.Sprintf("%s=%d", ob.name, x), true
	case StrV:
		bs := make([]byte, v.length())
		for i := range bs {
			bs[i] = byte(m.eval(v.at(i)))
		}
		return fmt.Sprintf("%s=%s", ob.name, string(bs)), true
	}
	return "", false
}

// ---- known findings ----------------------------------------------------------

type SiteSpec struct {
	Func        string `json:"func"`
	LinePattern string `json:"line_pattern"`
	Occurrence  int    `json:"occurrence"`
	Branch      string `json:"branch,omitempty"` // "true" (default) or "false"
}

type KnownFinding struct {
	ID          string   `json:"id"`
	Property    string   `json:"property"`
	Site        SiteSpec `json:"site"`
	Labels      []string `json:"labels,omitempty"`
	Harnesses   []string `json:"harnesses,omitempty"`
	Description string   `json:"description"`
	active      bool
}

type KnownFile struct {
	Findings []*KnownFinding `json:"findings"`
	Fixed    []string        `json:"fixed"`
}

func (e *Engine) loadKnown(prop string) {
	b, err := os.ReadFile(filepath.Join(e.verifDir, "known_findings.json"))
	if err != nil {
		return
	}
	var kf KnownFile
	if err := json.Unmarshal(b, &kf); err != nil {
		fatal("known_findings.json: %v", err)
	}
	for _, k := range kf.Findings {
		if k.Property != prop {
			continue
		}
		e.known = append(e.known, k)
		if k.Site.LinePattern == "" {
			fn := e.findFunc(k.Site.Func)
			if fn == nil {
				fmt.Printf("note: known-finding site %s no longer resolves in the current tree; entry inactive\n", k.ID)
				continue
			}
			k.active = true
			e.siteFns[fn] = k.ID
			e.siteDesc[k.ID] = k
			continue
		}
		ifs := e.resolveSite(k.Site)
		if ifs == nil {
			fmt.Printf("note: known-finding site %s no longer resolves in the current tree; entry inactive\n", k.ID)
			continue
		}
		k.active = true
		e.siteIfs[ifs] = k.ID
		e.siteDesc[k.ID] = k
	}
}

func (e *Engine) knownFor(id, label string) bool {
	k := e.siteDesc[id]
	if k == nil || !k.active {
		return false
	}
	if len(k.Labels) == 0 {
		return true
	}
	for _, l := range k.Labels {
		if l == label || (strings.HasSuffix(l, "*") && strings.HasPrefix(label, strings.TrimSuffix(l, "*"))) {
			return true
		}
	}
	return false
}

func (e *Engine) findFunc(name string) *ssa.Function {
	for _, p := range e.ssaPkgs {
		if !strings.HasPrefix(p.Pkg.Path(), modPath) {
			continue
		}
		for _, m := range p.Members {
			switch x := m.(type) {
			case *ssa.Function:
				if x.String() == name {
					return x
				}
			case *ssa.Type:
				for _, t := range []interface{ String() string }{x.Type()} {
					_ = t
				}
				ms := e.prog.MethodSets.MethodSet(x.Type())
				for i := 0; i < ms.Len(); i++ {
					if fn := e.prog.MethodValue(ms.At(i)); fn != nil && fn.String() == name {
						return fn
					}
				}
				pms := e.prog.MethodSets.MethodSet(typesPointer(x.Type()))
				for i := 0; i < pms.Len(); i++ {
					if fn := e.prog.MethodValue(pms.At(i)); fn != nil && fn.String() == name {
						return fn
					}
				}
			}
		}
	}
	return nil
}

func (e *Engine) resolveSite(s SiteSpec) *ssa.If {
	fn := e.findFunc(s.Func)
	if fn == nil || fn.Syntax() == nil {
		return nil
	}
	fset := e.prog.Fset
	start, end := fset.Position(fn.Syntax().Pos()), fset.Position(fn.Syntax().End())
	src, err := os.ReadFile(start.Filename)
	if err != nil {
		return nil
	}
	lines := strings.Split(string(src), "\n")
	occ := 0
	target := -1
	for ln := start.Line; ln <= end.Line && ln <= len(lines); ln++ {
		if strings.Contains(lines[ln-1], s.LinePattern) {
			occ++
			if occ == s.Occurrence || (s.Occurrence == 0 && occ == 1) {
				target = ln
				break
			}
		}
	}
	if target < 0 {
		return nil
	}
	for _, b := range fn.Blocks {
		for _, in := range b.Instrs {
			if x, ok := in.(*ssa.If); ok {
				p := fset.Position(condPos(x.Cond))
				if p.Line == target {
					return x
				}
			}
		}
	}
	return nil
}

func condPos(v ssa.Value) (p tokenPos) {
	switch x := v.(type) {
	case *ssa.BinOp:
		return x.Pos()
	case *ssa.UnOp:
		if x.Pos().IsValid() {
			return x.Pos()
		}
		return condPos(x.X)
	case *ssa.Phi:
		return x.Pos()
	case *ssa.Call:
		return x.Pos()
	}
	return v.Pos()
}

// ---- evidence -----------------------------------------------------------------

type Evidence struct {
	PropertyID  string                 `json:"property_id"`
	Tier        string                 `json:"tier"`
	Seed        int                    `json:"seed"`
	Level       string                 `json:"level"`
	Coverage    map[string]interface{} `json:"coverage"`
	Assumptions []string               `json:"assumptions"`
	WallS       float64                `json:"wall_s"`
	Violations  int                    `json:"violations"`
}

func sortedKeys(m map[string]int) []string {
	var ks []string
	for k := range m {
		ks = append(ks, k)
	}
	sort.Strings(ks)
	return ks
}
