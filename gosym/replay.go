package main

// Native replay: counterexamples and sampled witnesses are run against the
// real build with `go test -overlay` (the harness files + the native runtime +
// a generated test driver are virtual files; /repo is never written).

import (
	"bytes"
	"context"
	"encoding/json"
	"fmt"
	"os"
	"os/exec"
	"path/filepath"
	"sort"
	"strings"
	"time"
)

type replayOut struct {
	lines   []string
	ran     bool
	timeout bool
}

// nativeReplay runs the given records (all from harnesses of one package dir).
func (e *Engine) nativeReplay(pkgPath string, recs []*CexRec, timeout time.Duration) (map[int]*replayOut, string, error) {
	tmp, err := os.MkdirTemp("", "gosym-replay-")
	if err != nil {
		return nil, "", err
	}
	defer os.RemoveAll(tmp)
	rel := strings.TrimPrefix(strings.TrimPrefix(pkgPath, modPath), "/")
	pkgDir := filepath.Join(e.repo, rel)
	ov := map[string]string{}
	i := 0
	var names []string
	for vpath, src := range e.overlay {
		if filepath.Dir(vpath) != pkgDir {
			continue
		}
		real := filepath.Join(tmp, fmt.Sprintf("f%d.go", i))
		i++
		if err := os.WriteFile(real, src, 0o644); err != nil {
			return nil, "", err
		}
		ov[vpath] = real
	}
	for name, h := range e.harnesses {
		if h.Pkg == pkgPath {
			names = append(names, name)
		}
	}
	sort.Strings(names)
	var tb strings.Builder
	fmt.Fprintf(&tb, "package %s\n\nimport (\n\t\"encoding/json\"\n\t\"fmt\"\n\t\"os\"\n\t\"testing\"\n)\n\n", packageNameOf(pkgDir))
	tb.WriteString("var vhTable = map[string]func(){\n")
	for _, n := range names {
		fmt.Fprintf(&tb, "\t%q: %s,\n", n, n)
	}
	tb.WriteString("}\n\n")
	tb.WriteString(`func TestVerifReplay(t *testing.T) {
	b, err := os.ReadFile(os.Getenv("VERIF_REPLAYS"))
	if err != nil {
		t.Fatal(err)
	}
	var ms []*vModelT
	if err := json.Unmarshal(b, &ms); err != nil {
		t.Fatal(err)
	}
	for i, m := range ms {
		fmt.Printf("BEGIN %d\n", i)
		vResetModel(m)
		f, ok := vhTable[m.Harness]
		if !ok {
			fmt.Printf("NO-HARNESS %s\n", m.Harness)
		} else {
			vRunHarness(m.Harness, f)
		}
		fmt.Printf("END %d\n", i)
	}
}
`)
	testReal := filepath.Join(tmp, "replay_test.go")
	os.WriteFile(testReal, []byte(tb.String()), 0o644)
	ov[filepath.Join(pkgDir, "zz_verif_replay_test.go")] = testReal
	ovJSON, _ := json.Marshal(map[string]interface{}{"Replace": ov})
	ovPath := filepath.Join(tmp, "overlay.json")
	os.WriteFile(ovPath, ovJSON, 0o644)
	models, _ := json.Marshal(recs)
	mPath := filepath.Join(tmp, "models.json")
	os.WriteFile(mPath, models, 0o644)

	ctx, cancel := context.WithTimeout(context.Background(), timeout)
	defer cancel()
	cmd := exec.CommandContext(ctx, "go", "test", "-vet=off", "-count=1", "-overlay", ovPath, "-run", "^TestVerifReplay$", "-v", ".")
	cmd.Dir = pkgDir
	cmd.Env = append(os.Environ(), "GOFLAGS=-mod=mod", "GOPROXY=off", "GOSUMDB=off", "GOTOOLCHAIN=local", "VERIF_REPLAYS="+mPath,
		"GOCACHE="+goCacheDir())
	var out bytes.Buffer
	cmd.Stdout = &out
	cmd.Stderr = &out
	err = cmd.Run()
	if lf := os.Getenv("VERIF_REPLAY_LOG"); lf != "" {
		os.WriteFile(lf, append(append([]byte{}, models...), out.Bytes()...), 0o644)
	}
	res := map[int]*replayOut{}
	cur := -1
	for _, line := range strings.Split(out.String(), "\n") {
		var k int
		if n, _ := fmt.Sscanf(line, "BEGIN %d", &k); n == 1 && strings.HasPrefix(line, "BEGIN ") {
			cur = k
			res[cur] = &replayOut{}
			continue
		}
		if n, _ := fmt.Sscanf(line, "END %d", &k); n == 1 && strings.HasPrefix(line, "END ") {
			if res[k] != nil {
				res[k].ran = true
			}
			cur = -1
			continue
		}
		if cur >= 0 {
			res[cur].lines = append(res[cur].lines, line)
		}
	}
	if ctx.Err() == context.DeadlineExceeded && cur >= 0 {
		res[cur].timeout = true
	}
	return res, out.String(), err
}

func goCacheDir() string {
	if d := os.Getenv("GOCACHE"); d != "" {
		return d
	}
	out, err := exec.Command("go", "env", "GOCACHE").Output()
	if err == nil {
		return strings.TrimSpace(string(out))
	}
	return filepath.Join(os.TempDir(), "gosym-gocache")
}

func (r *replayOut) has(prefix string) bool {
	for _, l := range r.lines {
		if strings.HasPrefix(l, prefix) {
			return true
		}
	}
	return false
}

func (r *replayOut) obs() []string {
	var o []string
	for _, l := range r.lines {
		if strings.HasPrefix(l, "OBS ") {
			o = append(o, strings.TrimPrefix(l, "OBS "))
		}
	}
	return o
}
