package main

// One long-lived SMT solver process per worker (z3 -in by default), push/pop
// per query, every non-leaf term introduced once as a define-fun.

import (
	"bufio"
	"fmt"
	"io"
	"os"
	"os/exec"
	"strconv"
	"strings"
	"time"
)

type Result int

const (
	Unsat Result = iota
	Sat
	Unknown
)

func (r Result) String() string { return [...]string{"unsat", "sat", "unknown"}[r] }

type SolverStats struct {
	Sat, Unsat, Unknown int
	Queries             int
	CacheHits           int
	ModelHits           int
	Fallbacks           int
	Time                time.Duration
	Errors              []string
}

type Solver struct {
	cmdline   []string
	cmd       *exec.Cmd
	in        io.WriteCloser
	out       *bufio.Reader
	defined   map[int32]bool
	declared  map[string]bool
	ufDecl    map[string]bool
	cache     map[string]Result
	stats     SolverStats
	timeoutMs int
	nDefs     int
	log       io.Writer
}

func newSolver(cmdline []string, timeoutMs int) *Solver {
	s := &Solver{cmdline: cmdline, timeoutMs: timeoutMs, cache: map[string]Result{}}
	if d := os.Getenv("VERIF_SOLVER_LOG"); d != "" {
		f, _ := os.CreateTemp(d, "session-*.smt2")
		s.log = f
	}
	s.start()
	return s
}

func (s *Solver) start() {
	s.cmd = exec.Command(s.cmdline[0], s.cmdline[1:]...)
	var err error
	s.in, err = s.cmd.StdinPipe()
	if err != nil {
		panic(err)
	}
	o, err := s.cmd.StdoutPipe()
	if err != nil {
		panic(err)
	}
	s.cmd.Stderr = nil
	s.out = bufio.NewReaderSize(o, 1<<16)
	if err := s.cmd.Start(); err != nil {
		panic(err)
	}
	s.defined = map[int32]bool{}
	s.declared = map[string]bool{}
	s.ufDecl = map[string]bool{}
	s.nDefs = 0
	if strings.Contains(s.cmdline[0], "z3") {
		s.send(fmt.Sprintf("(set-option :timeout %d)\n", s.timeoutMs))
	}
	s.send("(set-option :print-success false)\n(set-logic ALL)\n")
}

func (s *Solver) close() {
	if s.cmd != nil {
		s.in.Close()
		s.cmd.Process.Kill()
		s.cmd.Wait()
		s.cmd = nil
	}
}

func (s *Solver) send(txt string) {
	if s.log != nil {
		io.WriteString(s.log, txt)
	}
	if _, err := io.WriteString(s.in, txt); err != nil {
		panic(engineErr("solver pipe: " + err.Error()))
	}
}

// define makes sure t has a name in the solver session.
func (s *Solver) define(t *Term, sb *strings.Builder) {
	switch t.op {
	case OpConst:
		return
	case OpVar:
		if !s.declared[t.name] {
			s.declared[t.name] = true
			fmt.Fprintf(sb, "(declare-const |%s| %s)\n", t.name, smtSort(t.sort))
		}
		return
	}
	if s.defined[t.id] {
		return
	}
	for _, a := range t.args {
		s.define(a, sb)
	}
	if t.op == OpUF {
		key := t.name
		if !s.ufDecl[key] {
			s.ufDecl[key] = true
			sb.WriteString("(declare-fun |" + t.name + "| (")
			for _, a := range t.args {
				sb.WriteString(smtSort(a.sort) + " ")
			}
			sb.WriteString(") " + smtSort(t.sort) + ")\n")
		}
	}
	s.defined[t.id] = true
	s.nDefs++
	fmt.Fprintf(sb, "(define-fun t%d () %s %s)\n", t.id, smtSort(t.sort), smtBody(t))
}

func (s *Solver) readLine() string {
	line, err := s.out.ReadString('\n')
	if err != nil {
		panic(engineErr("solver died: " + err.Error()))
	}
	return strings.TrimSpace(line)
}

// readSexp reads one balanced s-expression (possibly multi-line).
func (s *Solver) readSexp() string {
	var sb strings.Builder
	depth := 0
	started := false
	for {
		line, err := s.out.ReadString('\n')
		if err != nil {
			panic(engineErr("solver died: " + err.Error()))
		}
		for _, c := range line {
			if c == '(' {
				depth++
				started = true
			} else if c == ')' {
				depth--
			}
		}
		sb.WriteString(line)
		if started && depth <= 0 {
			break
		}
		if !started && strings.TrimSpace(line) != "" {
			break
		}
	}
	return sb.String()
}

func cacheKey(conj []*Term) string {
	d := dedupTerms(conj)
	var sb strings.Builder
	for _, t := range d {
		sb.WriteString(strconv.FormatInt(int64(t.id), 36))
		sb.WriteByte(',')
	}
	return sb.String()
}

// check decides satisfiability of the conjunction. If wantModel, a model for
// all variables (and UF applications) reachable from conj is returned on sat.
func (s *Solver) check(conj []*Term, wantModel bool) (Result, *Model) {
	for _, t := range conj {
		if t.isFalse() {
			return Unsat, nil
		}
	}
	key := cacheKey(conj)
	if !wantModel {
		if r, ok := s.cache[key]; ok {
			s.stats.CacheHits++
			return r, nil
		}
	} else if r, ok := s.cache[key]; ok && r != Sat {
		s.stats.CacheHits++
		return r, nil
	}
	if s.nDefs > 200000 {
		s.close()
		s.start()
	}
	t0 := time.Now()
	var sb strings.Builder
	for _, t := range conj {
		s.define(t, &sb)
	}
	sb.WriteString("(push 1)\n")
	for _, t := range conj {
		if t.isTrue() {
			continue
		}
		sb.WriteString("(assert " + smtName(t) + ")\n")
	}
	sb.WriteString("(check-sat)\n")
	s.send(sb.String())
	ans := s.readLine()
	for strings.HasPrefix(ans, "(error") || ans == "" {
		if ans != "" {
			s.stats.Errors = append(s.stats.Errors, ans)
		}
		if strings.HasPrefix(ans, "(error") {
			// inconclusive; try to resync by reading the verdict line that follows
			ans = s.readLine()
			if ans == "sat" || ans == "unsat" || ans == "unknown" {
				ans = "unknown"
				break
			}
			continue
		}
		ans = s.readLine()
	}
	var res Result
	switch ans {
	case "sat":
		res = Sat
		s.stats.Sat++
	case "unsat":
		res = Unsat
		s.stats.Unsat++
	default:
		res = Unknown
		s.stats.Unknown++
	}
	if res == Unknown {
		// the incremental core can be weaker than a fresh solver on div/mod-heavy
		// queries: retry the standalone script on a portfolio of fresh solvers
		script := standaloneScript(conj)
		for _, alt := range [][]string{{"z3-new", "-in", "-T:" + strconv.Itoa(s.timeoutMs/1000*3+10)}, {"z3", "-in", "-T:" + strconv.Itoa(s.timeoutMs/1000*3+10)}, {"cvc5", "--lang=smt2"}} {
			out, err := oneShot(alt, script, time.Duration(s.timeoutMs)*3*time.Millisecond+10*time.Second)
			s.stats.Fallbacks++
			if err == nil && out == "unsat" {
				res = Unsat
				s.stats.Unknown--
				s.stats.Unsat++
				break
			}
			if err == nil && out == "sat" && !wantModel {
				res = Sat
				s.stats.Unknown--
				s.stats.Sat++
				break
			}
		}
	}
	var model *Model
	if res == Sat && wantModel {
		var vars, ufs []*Term
		collectVars(conj, map[int32]bool{}, &vars, &ufs)
		model = &Model{vals: map[string]int64{}, uf: map[string]int64{}}
		if len(vars)+len(ufs) > 0 {
			var q strings.Builder
			q.WriteString("(get-value (")
			for _, v := range vars {
				q.WriteString(smtName(v) + " ")
			}
			for _, u := range ufs {
				q.WriteString(smtName(u) + " ")
			}
			q.WriteString("))\n")
			s.send(q.String())
			reply := s.readSexp()
			vals := parseValues(reply)
			if len(vals) != len(vars)+len(ufs) {
				s.stats.Errors = append(s.stats.Errors, "get-value parse: "+reply)
				model = nil
			} else {
				for i, v := range vars {
					model.vals[v.name] = vals[i]
				}
				for i, u := range ufs {
					k := u.name + "("
					for _, a := range u.args {
						k += strconv.FormatInt(model.eval(a), 10) + ","
					}
					k += ")"
					model.uf[k] = vals[len(vars)+i]
				}
			}
		}
	}
	s.send("(pop 1)\n")
	s.stats.Queries++
	s.stats.Time += time.Since(t0)
	s.cache[key] = res
	return res, model
}

// parseValues extracts the value of each pair from a get-value reply
// "((name val) (name val) ...)" in order.
func parseValues(reply string) []int64 {
	toks := tokenize(reply)
	// structure: ( ( name VAL ) ( name VAL ) ... )
	var out []int64
	i := 0
	if i < len(toks) && toks[i] == "(" {
		i++
	}
	for i < len(toks) && toks[i] == "(" {
		i++ // (
		// name: may be a token or |quoted|
		i++ // name
		v, ni, ok := parseVal(toks, i)
		if !ok {
			return nil
		}
		out = append(out, v)
		i = ni
		if i < len(toks) && toks[i] == ")" {
			i++
		}
	}
	return out
}

func parseVal(toks []string, i int) (int64, int, bool) {
	if i >= len(toks) {
		return 0, i, false
	}
	switch toks[i] {
	case "true":
		return 1, i + 1, true
	case "false":
		return 0, i + 1, true
	case "(":
		// (- N)
		if i+3 < len(toks) && toks[i+1] == "-" {
			v, ni, ok := parseVal(toks, i+2)
			if !ok || ni >= len(toks) || toks[ni] != ")" {
				return 0, i, false
			}
			return -v, ni + 1, true
		}
		return 0, i, false
	}
	v, err := strconv.ParseInt(toks[i], 10, 64)
	if err != nil {
		return 0, i, false
	}
	return v, i + 1, true
}

func tokenize(s string) []string {
	var toks []string
	i := 0
	for i < len(s) {
		c := s[i]
		switch {
		case c == '(' || c == ')':
			toks = append(toks, string(c))
			i++
		case c == ' ' || c == '\n' || c == '\t' || c == '\r':
			i++
		case c == '|':
			j := i + 1
			for j < len(s) && s[j] != '|' {
				j++
			}
			toks = append(toks, s[i:j+1])
			i = j + 1
		default:
			j := i
			for j < len(s) && !strings.ContainsRune("() \n\t\r", rune(s[j])) {
				j++
			}
			toks = append(toks, s[i:j])
			i = j
		}
	}
	return toks
}

// oneShot runs a different solver binary on a standalone script (cross-check).
func oneShot(cmdline []string, script string, timeout time.Duration) (string, error) {
	cmd := exec.Command(cmdline[0], cmdline[1:]...)
	cmd.Stdin = strings.NewReader(script)
	done := make(chan struct{})
	var out []byte
	var err error
	go func() { out, err = cmd.Output(); close(done) }()
	select {
	case <-done:
	case <-time.After(timeout):
		if cmd.Process != nil {
			cmd.Process.Kill()
		}
		<-done
		return "timeout", nil
	}
	return strings.TrimSpace(string(out)), err
}

// standaloneScript renders the conjunction as a self-contained SMT-LIB2 script.
func standaloneScript(conj []*Term) string {
	var sb strings.Builder
	sb.WriteString("(set-logic ALL)\n")
	tmp := &Solver{defined: map[int32]bool{}, declared: map[string]bool{}, ufDecl: map[string]bool{}}
	for _, t := range conj {
		tmp.define(t, &sb)
	}
	for _, t := range conj {
		sb.WriteString("(assert " + smtName(t) + ")\n")
	}
	sb.WriteString("(check-sat)\n")
	return sb.String()
}
