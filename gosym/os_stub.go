package main

// In-memory file system model (DESIGN §2.5): name -> byte array object
// (symbolic content, concrete length); *os.File handles with a position.
// Read returns all requested bytes or what is left (0, io.EOF at the end).
// Harnesses that use it run with merging disabled.

import (
	"fmt"
	"strings"

	"golang.org/x/tools/go/ssa"
)

type fhState struct {
	name   StrV
	pos    int
	closed bool
	obj    int // content object
}

type fsEntry struct {
	name StrV
	obj  int
}

// fsLookup resolves a (possibly symbolic) file name against the model file
// system, forking on symbolic name equality. idx < 0 means "no such file".
type fsHit struct {
	st  *State
	idx int
}

func (w *Worker) fsLookup(st *State, name StrV) []fsHit {
	var hits []fsHit
	cur := st
	for i, e := range cur.fs {
		c := w.valuesEqual(cur, e.name, name)
		if c.isFalse() {
			continue
		}
		if c.isTrue() {
			return append(hits, fsHit{cur, i})
		}
		ft, mt, ff, mf := w.feasible(cur, c)
		if ft && ff {
			hitSt := cur.fork()
			w.states++
			hitSt.assume(c)
			hitSt.model = mt
			hits = append(hits, fsHit{hitSt, i})
			cur.assume(mkNot(c))
			cur.model = mf
			continue
		}
		if ft {
			cur.assumeImplied(c)
			return append(hits, fsHit{cur, i})
		}
		cur.assumeImplied(mkNot(c))
	}
	return append(hits, fsHit{cur, -1})
}

func (st *State) fsPut(idx int, name StrV, obj int) {
	n := make([]fsEntry, len(st.fs), len(st.fs)+1)
	copy(n, st.fs)
	if idx >= 0 {
		n[idx] = fsEntry{name, obj}
	} else {
		n = append(n, fsEntry{name, obj})
	}
	st.fs = n
}

func (st *State) fsDelIdx(idx int) {
	n := make([]fsEntry, 0, len(st.fs))
	n = append(n, st.fs[:idx]...)
	n = append(n, st.fs[idx+1:]...)
	st.fs = n
}

func strName(v Value) StrV { return v.(StrV) }

func showName(s StrV) string {
	if s.isConcrete() {
		return s.s
	}
	return "<symbolic name>"
}

func (w *Worker) newHandle(st *State, name StrV, obj int) PtrV {
	id := st.alloc(OpaqueV{kind: "fh", v: &fhState{name: name, obj: obj}})
	return PtrV{obj: id}
}

func fhOf(st *State, v Value) (*fhState, int) {
	p, ok := v.(PtrV)
	if !ok || p.isNil() {
		return nil, 0
	}
	o, ok := st.get(p.obj).(OpaqueV)
	if !ok || o.kind != "fh" {
		unsupported("*os.File method on a value not created by the file-system model")
	}
	return o.v.(*fhState), p.obj
}

func (w *Worker) ioEOF(st *State) Value {
	g := w.eng.ssaPkgs["io"].Members["EOF"].(*ssa.Global)
	return st.load(PtrV{obj: w.eng.globals[g]})
}

func (w *Worker) fsError(st *State, msg string, depth int) (Value, *State) {
	e := w.newError(st, StrV{s: msg}, depth)
	return e.ret, e.st
}

// callMethod dispatches name on an interface value through the interpreter.
func (w *Worker) callMethod(st *State, iv IfaceV, name string, args []Value, depth int) []Outcome {
	if iv.t == nil {
		return []Outcome{{st: st, pan: &PanicV{runtime: "nil pointer dereference (nil interface method call)", site: name}}}
	}
	m := w.eng.prog.LookupMethod(iv.t, nil, name)
	if m == nil {
		unsupported("no method %s on %s", name, iv.t)
	}
	return w.call(st, &FuncV{fn: m}, append([]Value{iv.v}, args...), depth+1, "callMethod "+name)
}

func init() {
	natives["os.Open"] = func(w *Worker, st *State, args []Value, fv *FuncV, depth int) []Outcome {
		name := strName(args[0])
		var outs []Outcome
		for _, h := range w.fsLookup(st, name) {
			if h.idx < 0 {
				e, s := w.fsError(h.st, "open "+showName(name)+": no such file or directory", depth)
				outs = append(outs, Outcome{st: s, ret: TupleV{PtrV{}, e}})
				continue
			}
			outs = append(outs, Outcome{st: h.st, ret: TupleV{w.newHandle(h.st, name, h.st.fs[h.idx].obj), IfaceV{}}})
		}
		return outs
	}
	natives["os.Create"] = func(w *Worker, st *State, args []Value, fv *FuncV, depth int) []Outcome {
		name := strName(args[0])
		if name.length() == 0 || name.at(name.length()-1) == mkInt('/') {
			e, s := w.fsError(st, "open "+showName(name)+": is a directory", depth)
			return ret1(s, TupleV{PtrV{}, e})
		}
		for _, nd := range st.fsNoDir {
			if nd.isConcrete() && name.length() > nd.length() {
				pre := name
				if name.isConcrete() {
					pre = StrV{s: name.s[:nd.length()+1]}
				} else {
					pre = strFromTerms(name.sym[:nd.length()+1])
				}
				if pre.isConcrete() && pre.s == nd.s+"/" {
					e, s := w.fsError(st, "open "+showName(name)+": no such file or directory", depth)
					return ret1(s, TupleV{PtrV{}, e})
				}
			}
		}
		var outs []Outcome
		for _, h := range w.fsLookup(st, name) {
			obj := h.st.alloc(&ArrV{})
			h.st.fsPut(h.idx, name, obj)
			outs = append(outs, Outcome{st: h.st, ret: TupleV{w.newHandle(h.st, name, obj), IfaceV{}}})
		}
		return outs
	}
	natives["os.Remove"] = func(w *Worker, st *State, args []Value, fv *FuncV, depth int) []Outcome {
		name := strName(args[0])
		var outs []Outcome
		for _, h := range w.fsLookup(st, name) {
			if h.idx < 0 {
				e, s := w.fsError(h.st, "remove "+showName(name)+": no such file or directory", depth)
				outs = append(outs, Outcome{st: s, ret: e})
				continue
			}
			h.st.fsDelIdx(h.idx)
			outs = append(outs, Outcome{st: h.st, ret: IfaceV{}})
		}
		return outs
	}
	natives["os.MkdirAll"] = func(w *Worker, st *State, args []Value, fv *FuncV, depth int) []Outcome {
		return ret1(st, IfaceV{})
	}
	natives["os.UserCacheDir"] = func(w *Worker, st *State, args []Value, fv *FuncV, depth int) []Outcome {
		return ret1(st, TupleV{StrV{s: "/cache"}, IfaceV{}})
	}
	tempFile := func(w *Worker, st *State, args []Value, fv *FuncV, depth int) []Outcome {
		n := 0
		for _, e := range st.fs {
			if e.name.isConcrete() && strings.HasPrefix(e.name.s, "/tmp/gts-tmp-") {
				n++
			}
		}
		name := StrV{s: fmt.Sprintf("/tmp/gts-tmp-%d", n+st.tmpCount)}
		st.tmpCount++
		obj := st.alloc(&ArrV{})
		st.fsPut(-1, name, obj)
		return ret1(st, TupleV{w.newHandle(st, name, obj), IfaceV{}})
	}
	natives["io/ioutil.TempFile"] = tempFile
	natives["os.CreateTemp"] = tempFile

	natives["(*os.File).Fd"] = func(w *Worker, st *State, args []Value, fv *FuncV, depth int) []Outcome {
		return ret1(st, mkInt(0))
	}
	natives["(*os.File).Name"] = func(w *Worker, st *State, args []Value, fv *FuncV, depth int) []Outcome {
		h, _ := fhOf(st, args[0])
		if h == nil {
			return panicOut(st, "nil pointer dereference (*os.File).Name")
		}
		return ret1(st, h.name)
	}
	natives["(*os.File).Close"] = func(w *Worker, st *State, args []Value, fv *FuncV, depth int) []Outcome {
		h, id := fhOf(st, args[0])
		if h == nil {
			e, s := w.fsError(st, "invalid argument", depth)
			return ret1(s, e)
		}
		if h.closed {
			e, s := w.fsError(st, "close "+showName(h.name)+": file already closed", depth)
			return ret1(s, e)
		}
		n := *h
		n.closed = true
		st.set(id, OpaqueV{kind: "fh", v: &n})
		return ret1(st, IfaceV{})
	}
	natives["(*os.File).Read"] = func(w *Worker, st *State, args []Value, fv *FuncV, depth int) []Outcome {
		h, id := fhOf(st, args[0])
		if h == nil || h.closed {
			e, s := w.fsError(st, "read: file already closed", depth)
			return ret1(s, TupleV{mkInt(0), e})
		}
		dst := args[1].(SliceV)
		content := st.get(h.obj).(*ArrV)
		if dst.len == 0 {
			return ret1(st, TupleV{mkInt(0), IfaceV{}})
		}
		if h.pos >= len(content.e) {
			return ret1(st, TupleV{mkInt(0), w.ioEOF(st)})
		}
		n := copyValues(st, dst, content.e[h.pos:])
		nh := *h
		nh.pos += n
		st.set(id, OpaqueV{kind: "fh", v: &nh})
		return ret1(st, TupleV{mkInt(int64(n)), IfaceV{}})
	}
	natives["(*os.File).Write"] = func(w *Worker, st *State, args []Value, fv *FuncV, depth int) []Outcome {
		h, id := fhOf(st, args[0])
		if h == nil || h.closed {
			e, s := w.fsError(st, "write: file already closed", depth)
			return ret1(s, TupleV{mkInt(0), e})
		}
		src := append([]Value{}, w.sliceElems(st, args[1].(SliceV))...)
		content := st.get(h.obj).(*ArrV)
		end := h.pos + len(src)
		size := len(content.e)
		if end > size {
			size = end
		}
		e := make([]Value, size)
		copy(e, content.e)
		for i := len(content.e); i < h.pos; i++ {
			e[i] = mkInt(0)
		}
		copy(e[h.pos:], src)
		st.set(h.obj, &ArrV{e})
		nh := *h
		nh.pos = end
		st.set(id, OpaqueV{kind: "fh", v: &nh})
		return ret1(st, TupleV{mkInt(int64(len(src))), IfaceV{}})
	}
	natives["(*os.File).WriteString"] = func(w *Worker, st *State, args []Value, fv *FuncV, depth int) []Outcome {
		bs := strToValues(args[1].(StrV))
		id := st.alloc(&ArrV{bs})
		return natives["(*os.File).Write"](w, st, []Value{args[0], SliceV{obj: id, len: len(bs), cap: len(bs)}}, fv, depth)
	}
	natives["(*os.File).Seek"] = func(w *Worker, st *State, args []Value, fv *FuncV, depth int) []Outcome {
		h, id := fhOf(st, args[0])
		if h == nil || h.closed {
			e, s := w.fsError(st, "seek: file already closed", depth)
			return ret1(s, TupleV{mkInt(0), e})
		}
		off := int(concInt(args[1], "Seek offset"))
		whence := int(concInt(args[2], "Seek whence"))
		size := len(st.get(h.obj).(*ArrV).e)
		np := off
		switch whence {
		case 1:
			np = h.pos + off
		case 2:
			np = size + off
		}
		if np < 0 {
			e, s := w.fsError(st, "seek: invalid argument", depth)
			return ret1(s, TupleV{mkInt(0), e})
		}
		nh := *h
		nh.pos = np
		st.set(id, OpaqueV{kind: "fh", v: &nh})
		return ret1(st, TupleV{mkInt(int64(np)), IfaceV{}})
	}

	// flate: a self-delimiting framing instead of real DEFLATE (decompression correctness is assumed).
	// Like the real writer it buffers: Write only collects, Flush emits a chunk [hi lo data...], Close emits
	// the pending chunk and the terminator [0 0].  The reader model (harness/rt) stops at the terminator, so
	// bytes after the end of the stream are ignored and a stream cut short is an unexpected EOF, as with DEFLATE.
	natives["compress/flate.NewWriter"] = func(w *Worker, st *State, args []Value, fv *FuncV, depth int) []Outcome {
		level := concInt(args[1], "flate level")
		if level < -2 || level > 9 {
			e, s := w.fsError(st, fmt.Sprintf("flate: invalid compression level %d: want value in range [-2, 9]", level), depth)
			return ret1(s, TupleV{PtrV{}, e})
		}
		buf := st.alloc(&ArrV{})
		id := st.alloc(&StructV{f: []Value{args[0], SliceV{obj: buf}}})
		return ret1(st, TupleV{PtrV{obj: id}, IfaceV{}})
	}
	natives["(*compress/flate.Writer).Write"] = func(w *Worker, st *State, args []Value, fv *FuncV, depth int) []Outcome {
		p := args[0].(PtrV)
		if p.isNil() {
			return panicOut(st, "nil pointer dereference (*flate.Writer).Write")
		}
		sv := st.get(p.obj).(*StructV)
		old := w.sliceElems(st, sv.f[1].(SliceV))
		src := w.sliceElems(st, args[1].(SliceV))
		all := append(append([]Value{}, old...), src...)
		buf := st.alloc(&ArrV{all})
		st.set(p.obj, &StructV{f: []Value{sv.f[0], SliceV{obj: buf, len: len(all), cap: len(all)}}})
		return ret1(st, TupleV{mkInt(int64(len(src))), IfaceV{}})
	}
	flush := func(final bool) nativeFn {
		return func(w *Worker, st *State, args []Value, fv *FuncV, depth int) []Outcome {
			p := args[0].(PtrV)
			if p.isNil() {
				return panicOut(st, "nil pointer dereference (*flate.Writer)")
			}
			sv := st.get(p.obj).(*StructV)
			data := w.sliceElems(st, sv.f[1].(SliceV))
			var frame []Value
			if len(data) > 0 {
				if len(data) > 65535 {
					unsupported("flate model: chunk of %d bytes", len(data))
				}
				frame = append(frame, mkInt(int64(len(data)>>8)), mkInt(int64(len(data)&255)))
				frame = append(frame, data...)
			}
			if final {
				frame = append(frame, mkInt(0), mkInt(0))
			}
			empty := st.alloc(&ArrV{})
			st.set(p.obj, &StructV{f: []Value{sv.f[0], SliceV{obj: empty}}})
			if len(frame) == 0 {
				return ret1(st, IfaceV{})
			}
			fid := st.alloc(&ArrV{frame})
			var outs []Outcome
			for _, o := range w.callMethod(st, sv.f[0].(IfaceV), "Write", []Value{SliceV{obj: fid, len: len(frame), cap: len(frame)}}, depth) {
				if o.pan != nil {
					outs = append(outs, o)
					continue
				}
				outs = append(outs, Outcome{st: o.st, ret: o.ret.(TupleV)[1]})
			}
			return outs
		}
	}
	natives["(*compress/flate.Writer).Close"] = flush(true)
	natives["(*compress/flate.Writer).Flush"] = flush(false)

	// harness access to the model file system
	reg := func(name string, h nativeFn) { natives["intrinsic:"+name] = h }
	reg("vTempDir", func(w *Worker, st *State, args []Value, fv *FuncV, depth int) []Outcome {
		st.tmpCount++
		return ret1(st, StrV{s: fmt.Sprintf("/vfs%d", st.tmpCount)})
	})
	reg("vFSRead", func(w *Worker, st *State, args []Value, fv *FuncV, depth int) []Outcome {
		var outs []Outcome
		for _, h := range w.fsLookup(st, strName(args[0])) {
			if h.idx < 0 {
				outs = append(outs, Outcome{st: h.st, ret: TupleV{SliceV{}, tFalse}})
				continue
			}
			c := h.st.get(h.st.fs[h.idx].obj).(*ArrV)
			id := h.st.alloc(&ArrV{append([]Value{}, c.e...)})
			outs = append(outs, Outcome{st: h.st, ret: TupleV{SliceV{obj: id, len: len(c.e), cap: len(c.e)}, tTrue}})
		}
		return outs
	})
	reg("vFSWrite", func(w *Worker, st *State, args []Value, fv *FuncV, depth int) []Outcome {
		src := append([]Value{}, w.sliceElems(st, args[1].(SliceV))...)
		var outs []Outcome
		for _, h := range w.fsLookup(st, strName(args[0])) {
			obj := h.st.alloc(&ArrV{append([]Value{}, src...)})
			h.st.fsPut(h.idx, strName(args[0]), obj)
			outs = append(outs, Outcome{st: h.st, ret: nil})
		}
		return outs
	})
	reg("vFSRemove", func(w *Worker, st *State, args []Value, fv *FuncV, depth int) []Outcome {
		var outs []Outcome
		for _, h := range w.fsLookup(st, strName(args[0])) {
			if h.idx >= 0 {
				h.st.fsDelIdx(h.idx)
			}
			outs = append(outs, Outcome{st: h.st, ret: nil})
		}
		return outs
	})
	reg("vFSList", func(w *Worker, st *State, args []Value, fv *FuncV, depth int) []Outcome {
		dir := concStr(args[0], "vFSList dir") + "/"
		var e []Value
		for _, en := range st.fs {
			if en.name.length() <= len(dir) {
				continue
			}
			pre := true
			for i := 0; i < len(dir); i++ {
				c := en.name.at(i)
				if !c.isConst() || byte(c.k) != dir[i] {
					pre = false
					break
				}
			}
			sub := false
			for i := len(dir); i < en.name.length(); i++ {
				if c := en.name.at(i); c.isConst() && c.k == '/' {
					sub = true
				}
			}
			if pre && !sub {
				e = append(e, en.name)
			}
		}
		id := st.alloc(&ArrV{e})
		return ret1(st, SliceV{obj: id, len: len(e), cap: len(e)})
	})
	reg("vResetStdio", func(w *Worker, st *State, args []Value, fv *FuncV, depth int) []Outcome {
		// a fresh process: new (open, rewound) handles for the standard streams, stdin holds the given bytes
		src := append([]Value{}, w.sliceElems(st, args[0].(SliceV))...)
		osp := w.eng.ssaPkgs["os"]
		for _, nm := range []string{"Stdin", "Stdout", "Stderr"} {
			g := osp.Members[nm].(*ssa.Global)
			name := StrV{s: "/dev/" + strings.ToLower(nm)}
			var content []Value
			if nm == "Stdin" {
				content = src
			}
			obj := st.alloc(&ArrV{content})
			idx := -1
			for i, e := range st.fs {
				if e.name.isConcrete() && e.name.s == name.s {
					idx = i
				}
			}
			st.fsPut(idx, name, obj)
			st.set(w.eng.globals[g], w.newHandle(st, name, obj))
		}
		return ret1(st, nil)
	})
	reg("vIsModel", func(w *Worker, st *State, args []Value, fv *FuncV, depth int) []Outcome {
		return ret1(st, tTrue)
	})
	reg("vFSNoDir", func(w *Worker, st *State, args []Value, fv *FuncV, depth int) []Outcome {
		st.fsNoDir = append(st.fsNoDir[:len(st.fsNoDir):len(st.fsNoDir)], strName(args[0]))
		return ret1(st, nil)
	})
	reg("vDigest", func(w *Worker, st *State, args []Value, fv *FuncV, depth int) []Outcome {
		data := w.sliceElems(st, args[0].(SliceV))
		k := concInt(args[1], "vDigest k")
		ts := make([]*Term, len(data))
		for i, d := range data {
			ts[i] = d.(*Term)
		}
		u := intern(&Term{op: OpUF, sort: SInt, name: fmt.Sprintf("dg%d_%d", len(data), k), args: ts, lo: 0, hi: 255})
		st.pc = append(st.pc[:len(st.pc):len(st.pc)],
			intern(&Term{op: OpLe, sort: SBool, args: []*Term{mkInt(0), u}}),
			intern(&Term{op: OpLe, sort: SBool, args: []*Term{u, mkInt(255)}}))
		st.model = nil
		return ret1(st, u)
	})
}
