package main

import (
	"encoding/json"
	"flag"
	"fmt"
	"go/token"
	"go/types"
	"os"
	"path/filepath"
	"sort"
	"strconv"
	"strings"
	"sync"
	"time"
)

type tokenPos = token.Pos

var dbgWorker *Worker

func typesPointer(t types.Type) types.Type { return types.NewPointer(t) }

func main() {
	if len(os.Args) < 2 {
		fmt.Fprintln(os.Stderr, "usage: gosym check <PROP> [--tier quick|thorough] | gosym replay <file> | gosym list")
		os.Exit(2)
	}
	switch os.Args[1] {
	case "check":
		os.Exit(cmdCheck(os.Args[2:]))
	case "replay":
		os.Exit(cmdReplay(os.Args[2:]))
	case "list":
		e := loadEngine(envOr("VERIF_REPO", "/repo"), envOr("VERIF_DIR", "/verif"), 0, false)
		var names []string
		for n := range e.harnesses {
			names = append(names, n)
		}
		sort.Strings(names)
		for _, n := range names {
			h := e.harnesses[n]
			fmt.Printf("%s prop=%s quick=%d thorough=%d\n", n, h.Prop, h.Quick, h.Thorough)
		}
	default:
		fmt.Fprintln(os.Stderr, "unknown command")
		os.Exit(2)
	}
}

func envOr(k, d string) string {
	if v := os.Getenv(k); v != "" {
		return v
	}
	return d
}

type jobSpec struct {
	h       *HarnessSpec
	shard   int
	nshards int
}

func cmdCheck(args []string) int {
	fs := flag.NewFlagSet("check", flag.ExitOnError)
	tierS := fs.String("tier", envOr("VERIF_TIER", "quick"), "quick|thorough")
	only := fs.String("harness", "", "run only this harness")
	shardOnly := fs.Int("shard", -1, "run only this shard")
	workers := fs.Int("workers", 16, "parallel jobs")
	trace := fs.Bool("trace", false, "trace instructions")
	verbose := fs.Bool("v", false, "verbose")
	noReplay := fs.Bool("no-replay", false, "skip native replay (debugging only; result is then not reported as a pass)")
	solverS := fs.String("solver", envOr("VERIF_SOLVER", "z3-new -in"), "solver command")
	var prop string
	if len(args) > 0 && !strings.HasPrefix(args[0], "-") {
		prop = args[0]
		args = args[1:]
	}
	fs.Parse(args)
	if prop == "" && fs.NArg() > 0 {
		prop = fs.Arg(0)
	}
	if prop == "" {
		fmt.Fprintln(os.Stderr, "check: property id required")
		return 2
	}
	tier := 0
	if *tierS == "thorough" {
		tier = 1
	}
	seed, _ := strconv.Atoi(envOr("VERIF_SEED", "0"))
	t0 := time.Now()
	repo, vdir := envOr("VERIF_REPO", "/repo"), envOr("VERIF_DIR", "/verif")
	e := loadEngine(repo, vdir, tier, *verbose)
	e.witnessPerJob = 3
	if tier == 1 {
		e.witnessPerJob = 12
	}
	e.loadKnown(prop)
	solverCmd := strings.Fields(*solverS)
	func() {
		defer func() {
			if r := recover(); r != nil {
				if *verbose {
					fmt.Println("interpreted stack:", strings.Join(dbgWorker.panicStack, " > "), "instr:", dbgWorker.curInstr)
					panic(r)
				}
				fmt.Printf("ENGINE-ERROR during package initialisation: %v\n", r)
				os.Exit(2)
			}
		}()
		e.runInits(solverCmd)
	}()
	if *verbose {
		fmt.Printf("loaded in %.1fs, init executed %d steps, base heap %d objects\n", e.loadTime.Seconds(), e.initSteps, len(e.base))
	}
	var jobs []jobSpec
	var hnames []string
	for n := range e.harnesses {
		hnames = append(hnames, n)
	}
	sort.Strings(hnames)
	for _, n := range hnames {
		h := e.harnesses[n]
		if h.Prop != prop || (*only != "" && *only != n) {
			continue
		}
		ns := h.Quick
		if tier == 1 {
			ns = h.Thorough
		}
		for s := 0; s < ns; s++ {
			if *shardOnly >= 0 && s != *shardOnly {
				continue
			}
			jobs = append(jobs, jobSpec{h, s, ns})
		}
	}
	if len(jobs) == 0 {
		fmt.Printf("no harness registered for %s in tier %s\n", prop, *tierS)
		return 2
	}
	timeoutMs := 10000
	if tier == 1 {
		timeoutMs = 60000
	}
	results := make([]*JobResult, len(jobs))
	var wg sync.WaitGroup
	sem := make(chan struct{}, *workers)
	var pmu sync.Mutex
	for i, j := range jobs {
		wg.Add(1)
		go func(i int, j jobSpec) {
			defer wg.Done()
			sem <- struct{}{}
			defer func() { <-sem }()
			r := e.runJob(j.h, j.shard, j.nshards, solverCmd, timeoutMs, *trace)
			results[i] = r
			pmu.Lock()
			fmt.Printf("job %s[%d/%d]: %s paths=%d obligations=%d discharged=%d cex=%d steps=%d queries=%d (%.1fs solver) merges=%d wall=%.1fs %s\n",
				j.h.Name, j.shard, j.nshards, r.Status, r.Paths, r.Obligations, r.Discharged, len(r.Cex), r.Steps, r.Solver.Queries, r.Solver.Time.Seconds(), r.Merges, r.Wall, r.Msg)
			pmu.Unlock()
		}(i, j)
	}
	wg.Wait()

	// ---- native replay of counterexamples and witnesses --------------------
	exit := 0
	engineBad := false
	var lines []string
	byPkg := map[string][]*CexRec{}
	var allCex, allWit []*CexRec
	for i, r := range results {
		pk := jobs[i].h.Pkg
		for _, c := range r.Cex {
			if c.Label == labelTerminates {
				// unwinding assertion: the input of a path that ran past the per-path step bound is run natively on
				// its own under a time limit: a hang is a violation; a run that ends leaves the job inconclusive (bound)
				if *noReplay {
					continue
				}
				outs, _, _ := e.nativeReplay(pk, []*CexRec{c}, nonTerminationTimeout)
				if o := outs[0]; o != nil && o.timeout {
					c.Confirmed = true
					c.Native = fmt.Sprintf("native run did not end within %s\n", nonTerminationTimeout) + strings.Join(o.lines, "\n")
					allCex = append(allCex, c)
				} else {
					fmt.Printf("note: %s[%d]: a path ran past the step bound but its input ends natively (path longer than the bound, not a hang)\n", r.Harness, r.Shard)
				}
				continue
			}
			if c.Vars != nil || c.Choices != nil {
				byPkg[pk] = append(byPkg[pk], c)
			}
			allCex = append(allCex, c)
		}
		for _, c := range r.Witnesses {
			byPkg[pk] = append(byPkg[pk], c)
			allWit = append(allWit, c)
		}
	}
	validated := 0
	if !*noReplay {
		for pk, recs := range byPkg {
			outs, raw, err := e.nativeReplay(pk, recs, 10*time.Minute)
			if len(outs) == 0 {
				fmt.Printf("ENGINE-ERROR native replay did not run for %s: %v\n%s\n", pk, err, tail(raw, 40))
				engineBad = true
				continue
			}
			for i, c := range recs {
				o := outs[i]
				if o == nil {
					c.Native = "(no output)"
					continue
				}
				c.Native = strings.Join(o.lines, "\n")
				if c.Label == "witness" {
					got := o.obs()
					match := o.has("DONE ") && !o.has("ASSERT-FAIL") && len(got) == len(c.Obs)
					for k := 0; match && k < len(got); k++ {
						if got[k] != c.Obs[k] {
							match = false
						}
					}
					// witnesses on paths where an assertion failed are not compared for ASSERT-FAIL
					if match {
						c.Confirmed = true
						validated++
					} else if o.has("ASSERT-FAIL") && o.has("DONE ") && sameObs(got, c.Obs) {
						c.Confirmed = true
						validated++
					} else {
						fmt.Printf("ENGINE-MISMATCH harness=%s shard=%d: predicted %v (choices %v vars %v), native:\n%s\n", c.Harness, c.Shard, c.Obs, c.Choices, c.Vars, c.Native)
						engineBad = true
					}
					continue
				}
				switch {
				case c.Label == "uncaught-panic":
					c.Confirmed = o.has("HARNESS-PANIC") || o.timeout
				default:
					c.Confirmed = o.has("ASSERT-FAIL "+c.Label) || o.timeout
				}
			}
		}
	}

	// ---- verdict -----------------------------------------------------------
	os.MkdirAll(filepath.Join(vdir, "replays", prop), 0o755)
	old, _ := filepath.Glob(filepath.Join(vdir, "replays", prop, "*.json"))
	for _, f := range old {
		os.Remove(f)
	}
	knownSeen := map[string]bool{}
	violations := 0
	nrep := 0
	for _, c := range allCex {
		if c.Vars == nil && c.Choices == nil {
			continue
		}
		nrep++
		path := filepath.Join(vdir, "replays", prop, fmt.Sprintf("%s-%d-%d.json", c.Harness, c.Shard, nrep))
		b, _ := json.MarshalIndent(c, "", " ")
		os.WriteFile(path, b, 0o644)
		if !c.Confirmed && !*noReplay {
			fmt.Printf("ENGINE-ERROR counterexample for %s/%s did not reproduce natively (encoding or stub defect): %s\n", c.Harness, c.Label, path)
			engineBad = true
			continue
		}
		if len(c.Known) > 0 {
			for _, k := range c.Known {
				if !knownSeen[k] {
					knownSeen[k] = true
					lines = append(lines, fmt.Sprintf("KNOWN-FINDING: property=%s %s — %s (e.g. %s/%s, replay %s)", prop, k, e.siteDesc[k].Description, c.Harness, c.Label, path))
				}
			}
			continue
		}
		violations++
		lines = append(lines, fmt.Sprintf("VIOLATION property=%s replay=%s", prop, path))
		fmt.Printf("  counterexample %s/%s: vars=%v choices=%v %s\n", c.Harness, c.Label, c.Vars, c.Choices, c.Panic)
		exit = 1
	}
	// inconclusive outcomes
	incon := 0
	declared := map[string]bool{}
	reached := map[string]int{}
	for i, r := range results {
		if r.Status != "ok" {
			fmt.Printf("INCONCLUSIVE %s[%d]: %s: %s\n", r.Harness, r.Shard, r.Status, r.Msg)
			incon++
		}
		if len(r.Inconclusive) > 0 || len(r.Unknowns) > 0 {
			fmt.Printf("INCONCLUSIVE %s[%d]: solver unknown: %v %v\n", r.Harness, r.Shard, r.Inconclusive, r.Unknowns)
			incon++
		}
		if len(r.Disagree) > 0 {
			fmt.Printf("SOLVER-DISAGREEMENT %s[%d]: %v\n", r.Harness, r.Shard, r.Disagree)
			incon++
		}
		if len(r.Solver.Errors) > 0 {
			fmt.Printf("INCONCLUSIVE %s[%d]: solver errors: %v\n", r.Harness, r.Shard, r.Solver.Errors[:1])
			incon++
		}
		for k, n := range r.Covers {
			reached[k] += n
		}
		for _, c := range e.coverDecl[jobs[i].h.Name] {
			declared[jobs[i].h.Name+":"+c] = true
		}
		_ = i
	}
	for k := range declared {
		lbl := k[strings.Index(k, ":")+1:]
		if reached[lbl] == 0 && *only == "" && *shardOnly < 0 {
			fmt.Printf("VACUITY cover point %s never reached\n", k)
			incon++
		}
	}
	for _, l := range lines {
		fmt.Println(l)
	}
	if incon > 0 || engineBad {
		if exit == 0 {
			exit = 2
		}
	}
	writeEvidence(e, prop, *tierS, seed, results, jobs, allCex, allWit, validated, violations, len(knownSeen), time.Since(t0), solverCmd, incon, declared, reached)
	fmt.Printf("RESULT property=%s tier=%s exit=%d jobs=%d violations=%d known=%d inconclusive=%d wall=%.1fs\n", prop, *tierS, exit, len(jobs), violations, len(knownSeen), incon, time.Since(t0).Seconds())
	return exit
}

// nonTerminationTimeout: how long the native run of a path that exceeded the per-path step bound may take
// (including the build of the test binary) before it is reported as a hang.
const nonTerminationTimeout = 90 * time.Second

func sameObs(a, b []string) bool {
	if len(a) != len(b) {
		return false
	}
	for i := range a {
		if a[i] != b[i] {
			return false
		}
	}
	return true
}

func tail(s string, n int) string {
	ls := strings.Split(s, "\n")
	if len(ls) > n {
		ls = ls[len(ls)-n:]
	}
	return strings.Join(ls, "\n")
}

func cmdReplay(args []string) int {
	if len(args) < 1 {
		fmt.Fprintln(os.Stderr, "replay: file required")
		return 2
	}
	b, err := os.ReadFile(args[0])
	if err != nil {
		fmt.Fprintln(os.Stderr, err)
		return 2
	}
	var c CexRec
	if err := json.Unmarshal(b, &c); err != nil {
		fmt.Fprintln(os.Stderr, err)
		return 2
	}
	e := loadEngine(envOr("VERIF_REPO", "/repo"), envOr("VERIF_DIR", "/verif"), c.Tier, false)
	h := e.harnesses[c.Harness]
	if h == nil {
		fmt.Fprintf(os.Stderr, "unknown harness %s\n", c.Harness)
		return 2
	}
	limit := 10 * time.Minute
	if c.Label == labelTerminates {
		limit = nonTerminationTimeout
	}
	outs, raw, err := e.nativeReplay(h.Pkg, []*CexRec{&c}, limit)
	if outs[0] == nil {
		fmt.Println(raw)
		fmt.Println("replay did not run:", err)
		return 2
	}
	fmt.Println(strings.Join(outs[0].lines, "\n"))
	if outs[0].has("ASSERT-FAIL "+c.Label) || (c.Label == "uncaught-panic" && outs[0].has("HARNESS-PANIC")) || outs[0].timeout {
		fmt.Printf("REPRODUCED %s\n", c.Label)
		return 1
	}
	fmt.Println("not reproduced")
	return 0
}

func writeEvidence(e *Engine, prop, tier string, seed int, results []*JobResult, jobs []jobSpec, cex, wit []*CexRec, validated, violations, known int, wall time.Duration, solverCmd []string, incon int, declared map[string]bool, reached map[string]int) {
	var states, transitions, obligations, discharged, trivial, paths, merges, overflow int64
	var qs SolverStats
	fns := map[string]int{}
	harn := map[string]bool{}
	vars := map[string]bool{}
	var samples []interface{}
	proved := map[string]int{}
	cuts := map[string]int{}
	var crossChecked, crossAgree, crossIncon int
	for _, r := range results {
		crossChecked += r.CrossChecked
		crossAgree += r.CrossAgree
		crossIncon += r.CrossInconclusive
		for k, n := range r.Cuts {
			cuts[k] += n
		}
		states += r.States + int64(r.Paths)
		transitions += r.Branches
		obligations += int64(r.Obligations)
		discharged += int64(r.Discharged)
		trivial += int64(r.Trivial)
		overflow += int64(r.Overflow)
		paths += int64(r.Paths)
		merges += r.Merges
		qs.Sat += r.Solver.Sat
		qs.Unsat += r.Solver.Unsat
		qs.Unknown += r.Solver.Unknown
		qs.Queries += r.Solver.Queries
		qs.CacheHits += r.Solver.CacheHits
		qs.ModelHits += r.Solver.ModelHits
		qs.Time += r.Solver.Time
		for k, n := range r.Fns {
			fns[k] += n
		}
		for k := range r.Vars {
			vars[k] = true
		}
		for k, n := range r.Proved {
			proved[k] += n
		}
		harn[r.Harness] = true
		for _, s := range r.sampleQ {
			if len(samples) < 6 {
				samples = append(samples, map[string]interface{}{"kind": "obligation", "harness": r.Harness, "query": s})
			}
		}
	}
	for i, w := range wit {
		if i < 4 {
			samples = append(samples, map[string]interface{}{"kind": "witness replayed natively", "harness": w.Harness, "choices": w.Choices, "vars": w.Vars, "observations": w.Obs, "confirmed": w.Confirmed})
		}
	}
	for i, c := range cex {
		if i < 6 && c.Vars != nil {
			samples = append(samples, map[string]interface{}{"kind": "counterexample", "harness": c.Harness, "label": c.Label, "vars": c.Vars, "choices": c.Choices, "known_sites": c.Known, "confirmed_natively": c.Confirmed})
		}
	}
	if len(samples) == 0 {
		samples = append(samples, "no obligations reached")
	}
	var fnList []string
	for k, n := range fns {
		fnList = append(fnList, fmt.Sprintf("%s ×%d", k, n))
	}
	sort.Strings(fnList)
	var hl []string
	for h := range harn {
		hl = append(hl, h)
	}
	sort.Strings(hl)
	bounds := map[string]interface{}{}
	for _, j := range jobs {
		bounds[j.h.Name] = map[string]interface{}{"shards": j.nshards, "step_budget": j.h.Steps, "timeout_s": j.h.Timeout, "bounds_doc": e.boundsDoc[j.h.Name]}
	}
	var decl, reach []string
	for k := range declared {
		decl = append(decl, k)
		if reached[k[strings.Index(k, ":")+1:]] > 0 {
			reach = append(reach, k)
		}
	}
	sort.Strings(decl)
	sort.Strings(reach)
	nontrivial := obligations - trivial
	if nontrivial < 0 {
		nontrivial = 0
	}
	if states < 1 {
		states = 1
	}
	if transitions < 1 {
		transitions = 1
	}
	ev := Evidence{PropertyID: prop, Tier: tier, Seed: seed, Level: "model_checking", WallS: wall.Seconds(), Violations: violations,
		Coverage: map[string]interface{}{
			"states":                        states,
			"transitions":                   transitions,
			"traces_validated_against_impl": validated,
			"samples":                       samples,
			"evaluations":                   paths,
			"distinct_nontrivial":           nontrivial,
			"rule":                          "evaluations = feasible symbolic end paths (after merge-by-shape); distinct_nontrivial = proof obligations with a symbolic (non-constant) condition sent to the solver; every obligation covers all values of the symbolic inputs inside the stated bounds",
			"obligations":                   obligations,
			"discharged":                    discharged,
			"trivially_true_obligations":    trivial,
			"no_overflow_and_quotient_obligations_discharged": overflow,
			"obligations_by_label":                            proved,
			"harnesses":                                       hl,
			"functions_encoded":                               fnList,
			"bounds":                                          bounds,
			"symbolic_inputs":                                 len(vars),
			"merges":                                          merges,
			"queries":                                         map[string]interface{}{"sat": qs.Sat, "unsat": qs.Unsat, "unknown": qs.Unknown, "total": qs.Queries, "cache_hits": qs.CacheHits, "model_hits": qs.ModelHits},
			"solver_time_s":                                   qs.Time.Seconds(),
			"solver":                                          strings.Join(solverCmd, " "),
			"cover_points":                                    map[string]interface{}{"declared": decl, "reached": reach},
			"known_findings_hit":                              known,
			"cross_solver_recheck":                            map[string]interface{}{"obligations_sampled": crossChecked, "agreeing_unsat_verdicts_z3_4_8_12_and_cvc5": crossAgree, "inconclusive": crossIncon},
			"inconclusive":                                    incon,
			"encoding_regenerated_from":                       e.repo + " working tree (go/packages + go/ssa, this run)",
			"load_s":                                          e.loadTime.Seconds(),
			"init_steps":                                      e.initSteps,
			"exhaustive":                                      false,
		},
		Assumptions: e.assumptionsFor(hl),
	}
	b, _ := json.MarshalIndent(ev, "", " ")
	os.MkdirAll(filepath.Join(e.verifDir, "evidence"), 0o755)
	os.WriteFile(filepath.Join(e.verifDir, "evidence", prop+".json"), b, 0o644)
}
