package main

// Merge-by-shape at call return (DESIGN §2.3): outcomes whose return values
// and heap deltas have the same concrete shape are merged into one outcome
// with ite-terms; fresh objects are garbage-collected and renumbered
// canonically first so that paths that allocated differently still merge.

import (
	"fmt"
	"sort"
	"strings"
)

// identical: shallow identity of two heap values (no deep comparison).
func identical(a, b Value) bool {
	switch x := a.(type) {
	case *Term:
		y, ok := b.(*Term)
		return ok && x == y
	case StrV:
		y, ok := b.(StrV)
		if !ok || x.length() != y.length() {
			return false
		}
		if x.isConcrete() != y.isConcrete() {
			return false
		}
		if x.isConcrete() {
			return x.s == y.s
		}
		return len(x.sym) == 0 || &x.sym[0] == &y.sym[0]
	case *StructV:
		y, ok := b.(*StructV)
		return ok && x == y
	case *ArrV:
		y, ok := b.(*ArrV)
		return ok && x == y
	case *MapObj:
		y, ok := b.(*MapObj)
		return ok && x == y
	case *IterObj:
		y, ok := b.(*IterObj)
		return ok && x == y
	case PtrV:
		y, ok := b.(PtrV)
		return ok && samePtr(x, y)
	case SliceV:
		y, ok := b.(SliceV)
		return ok && x == y
	case IfaceV:
		y, ok := b.(IfaceV)
		return ok && x.t == y.t && identical(x.v, y.v)
	case *FuncV:
		y, ok := b.(*FuncV)
		return ok && x == y
	case MapV:
		y, ok := b.(MapV)
		return ok && x == y
	case nil:
		return b == nil
	case float64:
		y, ok := b.(float64)
		return ok && x == y
	}
	return false
}

type remapper struct {
	st    *State
	base  int
	m     map[int]int
	order []int // old ids in discovery order
}

func (r *remapper) visit(v Value) {
	switch x := v.(type) {
	case *StructV:
		for _, f := range x.f {
			r.visit(f)
		}
	case *ArrV:
		for _, f := range x.e {
			r.visit(f)
		}
	case PtrV:
		r.obj(x.obj)
	case SliceV:
		r.obj(x.obj)
	case IfaceV:
		if x.t != nil {
			r.visit(x.v)
		}
	case *FuncV:
		if x != nil {
			for _, f := range x.free {
				r.visit(f)
			}
		}
	case MapV:
		r.obj(x.obj)
	case IterV:
		r.obj(x.obj)
	case TupleV:
		for _, f := range x {
			r.visit(f)
		}
	case *MapObj:
		for i := range x.keys {
			r.visit(x.keys[i])
			r.visit(x.vals[i])
		}
	case *IterObj:
		for i := range x.keys {
			r.visit(x.keys[i])
			r.visit(x.vals[i])
		}
	}
}

func (r *remapper) obj(id int) {
	if id <= r.base {
		return
	}
	if _, ok := r.m[id]; ok {
		return
	}
	r.m[id] = r.base + 1 + len(r.order)
	r.order = append(r.order, id)
	r.visit(r.st.get(id))
}

func (r *remapper) rewrite(v Value) Value {
	switch x := v.(type) {
	case *StructV:
		var out []Value
		for i, f := range x.f {
			nf := r.rewrite(f)
			if out == nil && !identical(nf, f) {
				out = make([]Value, len(x.f))
				copy(out, x.f[:i])
			}
			if out != nil {
				out[i] = nf
			}
		}
		if out == nil {
			return x
		}
		return &StructV{out}
	case *ArrV:
		var out []Value
		for i, f := range x.e {
			nf := r.rewrite(f)
			if out == nil && !identical(nf, f) {
				out = make([]Value, len(x.e))
				copy(out, x.e[:i])
			}
			if out != nil {
				out[i] = nf
			}
		}
		if out == nil {
			return x
		}
		return &ArrV{out}
	case PtrV:
		if n, ok := r.m[x.obj]; ok && n != x.obj {
			return PtrV{obj: n, path: x.path, idx: x.idx}
		}
		return x
	case SliceV:
		if n, ok := r.m[x.obj]; ok && n != x.obj {
			x.obj = n
		}
		return x
	case IfaceV:
		if x.t == nil {
			return x
		}
		return IfaceV{x.t, r.rewrite(x.v)}
	case *FuncV:
		if x == nil || len(x.free) == 0 {
			return x
		}
		changed := false
		fr := make([]Value, len(x.free))
		for i, f := range x.free {
			fr[i] = r.rewrite(f)
			if !identical(fr[i], f) {
				changed = true
			}
		}
		if !changed {
			return x
		}
		return &FuncV{fn: x.fn, free: fr, native: x.native}
	case MapV:
		if n, ok := r.m[x.obj]; ok {
			x.obj = n
		}
		return x
	case IterV:
		if n, ok := r.m[x.obj]; ok {
			x.obj = n
		}
		return x
	case TupleV:
		out := make(TupleV, len(x))
		for i, f := range x {
			out[i] = r.rewrite(f)
		}
		return out
	case *MapObj:
		n := &MapObj{keys: make([]Value, len(x.keys)), vals: make([]Value, len(x.vals))}
		for i := range x.keys {
			n.keys[i] = r.rewrite(x.keys[i])
			n.vals[i] = r.rewrite(x.vals[i])
		}
		return n
	case *IterObj:
		n := *x
		n.keys = make([]Value, len(x.keys))
		n.vals = make([]Value, len(x.vals))
		for i := range x.keys {
			n.keys[i] = r.rewrite(x.keys[i])
			n.vals[i] = r.rewrite(x.vals[i])
		}
		return &n
	}
	return v
}

type canon struct {
	out      Outcome
	ret      Value
	modified []int         // old object ids whose value changed (ascending)
	modVals  map[int]Value // rewritten values
	fresh    []Value       // rewritten fresh objects in canonical order
	sig      string
	delta    *Term
}

// canonicalize garbage-collects and renumbers the fresh objects of an outcome.
func (w *Worker) canonicalize(o Outcome, base int, modified []int) *canon {
	st := o.st
	c := &canon{out: o, modVals: map[int]Value{}}
	c.modified = modified
	r := &remapper{st: st, base: base, m: map[int]int{}}
	r.visit(o.ret)
	for _, id := range c.modified {
		r.visit(st.get(id))
	}
	c.ret = r.rewrite(o.ret)
	for _, id := range c.modified {
		c.modVals[id] = r.rewrite(st.get(id))
	}
	for _, old := range r.order {
		c.fresh = append(c.fresh, r.rewrite(st.get(old)))
	}
	var sb strings.Builder
	conc := w.mergeConcrete
	shapeSigM(&sb, c.ret, conc)
	for _, id := range c.modified {
		fmt.Fprintf(&sb, "|m%d:", id)
		shapeSigM(&sb, c.modVals[id], conc)
	}
	for _, v := range c.fresh {
		sb.WriteString("|f:")
		shapeSigM(&sb, v, conc)
	}
	sb.WriteString("|t:" + strings.Join(st.trail, ","))
	fmt.Fprintf(&sb, "|o%d", len(st.obs))
	for _, ob := range st.obs {
		sb.WriteString(ob.name + ";")
		shapeSig(&sb, ob.val)
	}
	c.sig = sb.String()
	return c
}

func (w *Worker) mergeOutcomes(outs []Outcome, base int, basePC int, mark int) []Outcome {
	// the common parent heap is not retained; compare against the first
	// outcome's view of old objects via the base heap + "was it touched".
	// An old object counts as modified if its overlay entry differs from the
	// entry in *every other* outcome or from base: we approximate the parent by
	// the value on which all outcomes agree.
	var normals []Outcome
	var result []Outcome
	for _, o := range outs {
		if o.pan != nil {
			result = append(result, o)
		} else {
			normals = append(normals, o)
		}
	}
	if len(normals) < 2 {
		return outs
	}
	// old objects written by any outcome since the call was entered
	modSet := map[int]bool{}
	for _, o := range normals {
		if len(o.st.dirty) < mark {
			return outs // log was reset (should not happen)
		}
		for _, id := range o.st.dirty[mark:] {
			if id <= base {
				modSet[id] = true
			}
		}
	}
	var modified []int
	for id := range modSet {
		modified = append(modified, id)
	}
	sort.Ints(modified)
	// ids present in some overlays but not in first's: they were modified relative to base in that outcome only
	groups := map[string][]*canon{}
	var order []string
	for _, o := range normals {
		c := w.canonicalize(o, base, modified)
		c.delta = mkAnd(o.st.pc[basePC:]...)
		if _, ok := groups[c.sig]; !ok {
			order = append(order, c.sig)
		}
		groups[c.sig] = append(groups[c.sig], c)
	}
	for _, sig := range order {
		g := groups[sig]
		if len(g) == 1 {
			// keep original (non-renumbered) outcome
			result = append(result, g[0].out)
			continue
		}
		m, ok := w.mergeGroup(g, base, basePC, mark)
		if !ok {
			for _, c := range g {
				result = append(result, c.out)
			}
			continue
		}
		w.merges += int64(len(g) - 1)
		result = append(result, m)
	}
	return result
}

func (w *Worker) mergeGroup(g []*canon, base int, basePC int, mark int) (res Outcome, ok bool) {
	defer func() {
		if r := recover(); r != nil {
			if _, isMF := r.(mergeFail); isMF {
				ok = false
				return
			}
			panic(r)
		}
	}()
	last := g[len(g)-1]
	ret := last.ret
	mod := map[int]Value{}
	for _, id := range last.modified {
		mod[id] = last.modVals[id]
	}
	fresh := append([]Value(nil), last.fresh...)
	sites := map[string]*Term{}
	for k, v := range last.out.st.sites {
		sites[k] = v
	}
	obs := append([]obsRec(nil), last.out.st.obs...)
	deltas := []*Term{last.delta}
	for i := len(g) - 2; i >= 0; i-- {
		c := g[i]
		d := c.delta
		ret = mergeValue(d, c.ret, ret)
		for _, id := range c.modified {
			mod[id] = mergeValue(d, c.modVals[id], mod[id])
		}
		for j := range fresh {
			fresh[j] = mergeValue(d, c.fresh[j], fresh[j])
		}
		keys := map[string]bool{}
		for k := range sites {
			keys[k] = true
		}
		for k := range c.out.st.sites {
			keys[k] = true
		}
		for k := range keys {
			a, b := c.out.st.sites[k], sites[k]
			if a == nil {
				a = tFalse
			}
			if b == nil {
				b = tFalse
			}
			sites[k] = mkIte(d, a, b)
		}
		for j := range obs {
			obs[j].val = mergeValue(d, c.out.st.obs[j].val, obs[j].val)
		}
		deltas = append(deltas, d)
	}
	src := last.out.st
	st := &State{base: src.base, nextID: base + len(fresh), steps: src.steps}
	st.pc = append(src.pc[:basePC:basePC], mkOr(deltas...))
	st.heap = make(map[int]Value, len(src.heap))
	for id, v := range src.heap {
		if id <= base {
			st.heap[id] = v
		}
	}
	for id, v := range mod {
		st.heap[id] = v
	}
	for j, v := range fresh {
		st.heap[base+1+j] = v
	}
	if len(sites) > 0 {
		st.sites = sites
	}
	for _, c := range g {
		if len(c.out.st.fs) != len(src.fs) {
			panic(mergeFail{})
		}
		for k, v := range c.out.st.fs {
			if src.fs[k].obj != v.obj || !identical(src.fs[k].name, v.name) {
				panic(mergeFail{})
			}
		}
	}
	st.fs, st.fsNoDir, st.tmpCount = src.fs, src.fsNoDir, src.tmpCount
	st.trail = src.trail
	st.obs = obs
	st.dirty = append(src.dirty[:mark:mark], last.modified...)
	// a model of any constituent is a model of the merged pc, but merged
	// values may evaluate differently only through the ite guards, which the
	// same model decides consistently: keep the last one's model.
	st.model = g[0].out.st.model
	return Outcome{st: st, ret: ret}, true
}
