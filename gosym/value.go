package main

import (
	"fmt"
	"go/types"
	"strings"

	"golang.org/x/tools/go/ssa"
)

// Value is one of:
//
//	*Term            int/uint*/bool scalars (concrete = OpConst)
//	float64          concrete floats only
//	StrV             string (concrete or symbolic bytes, concrete length)
//	*StructV         struct (immutable)
//	*ArrV            array / slice backing store / heap cell contents (immutable)
//	PtrV             pointer
//	SliceV           slice header
//	IfaceV           interface value
//	*FuncV           function value / closure
//	MapV             map handle (object id); object holds *MapObj
//	TupleV           multi-value
//	*IterV           range iterator state handle (object id)
//	OpaqueV          engine-native payload carried through interpreted code
type Value interface{}

type StrV struct {
	s   string
	sym []*Term // non-nil: symbolic bytes (len(sym) is the length)
}

func (s StrV) length() int {
	if s.sym != nil {
		return len(s.sym)
	}
	return len(s.s)
}

func (s StrV) at(i int) *Term {
	if s.sym != nil {
		return s.sym[i]
	}
	return mkInt(int64(s.s[i]))
}

func (s StrV) bytes() []*Term {
	if s.sym != nil {
		return s.sym
	}
	out := make([]*Term, len(s.s))
	for i := 0; i < len(s.s); i++ {
		out[i] = mkInt(int64(s.s[i]))
	}
	return out
}

func strFromTerms(b []*Term) StrV {
	conc := true
	for _, t := range b {
		if !t.isConst() {
			conc = false
			break
		}
	}
	if conc {
		bs := make([]byte, len(b))
		for i, t := range b {
			bs[i] = byte(t.k)
		}
		return StrV{s: string(bs)}
	}
	cp := make([]*Term, len(b))
	copy(cp, b)
	return StrV{sym: cp}
}

func (s StrV) isConcrete() bool { return s.sym == nil }

type StructV struct{ f []Value }
type ArrV struct{ e []Value }

type PtrV struct {
	obj  int
	path []int
	idx  *Term // optional symbolic final index into an array at path
}

func (p PtrV) isNil() bool { return p.obj == 0 }

type SliceV struct {
	obj           int // 0 = nil slice
	off, len, cap int
}

type IfaceV struct {
	t types.Type // nil = nil interface
	v Value
}

type FuncV struct {
	fn     *ssa.Function
	free   []Value
	native string // engine-native function (intrinsic) name
}

type MapV struct{ obj int }

type MapObj struct {
	keys []Value
	vals []Value
}

type TupleV []Value

type IterV struct{ obj int }

type IterObj struct {
	isMap bool
	str   StrV
	keys  []Value
	vals  []Value
	pos   int
}

type OpaqueV struct {
	kind string
	v    interface{}
}

// PanicV is the payload of a Go panic outcome.
type PanicV struct {
	runtime string // non-empty: runtime error kind (index, nil deref, slice bounds, divide, type assertion)
	val     Value  // explicit panic(v)
	site    string
}

func (p *PanicV) String() string {
	if p.runtime != "" {
		return "runtime error: " + p.runtime + " @" + p.site
	}
	return fmt.Sprintf("panic(%s) @%s", showValue(p.val, 2), p.site)
}

// ---- State -------------------------------------------------------------

type State struct {
	pc       []*Term
	heap     map[int]Value // overlay over baseHeap
	base     map[int]Value
	nextID   int
	steps    int
	sites    map[string]*Term // known-finding site flags (Bool terms)
	model    *Model           // a model of pc if known (may be nil)
	trail    []string         // choice trail (for reporting)
	obs      []obsRec         // vObserve records along this path
	dirty    []int            // append-only log of object ids written (for merge-by-shape)
	fs       []fsEntry        // model file system: (name, content object), copy-on-write
	fsNoDir  []StrV           // directories declared missing by a harness
	tmpCount int
}

type obsRec struct {
	name string
	val  Value
}

func (st *State) fork() *State {
	n := &State{base: st.base, nextID: st.nextID, steps: st.steps, model: st.model}
	n.pc = st.pc[:len(st.pc):len(st.pc)]
	n.heap = make(map[int]Value, len(st.heap)+8)
	for k, v := range st.heap {
		n.heap[k] = v
	}
	if st.sites != nil {
		n.sites = make(map[string]*Term, len(st.sites))
		for k, v := range st.sites {
			n.sites[k] = v
		}
	}
	n.trail = st.trail[:len(st.trail):len(st.trail)]
	n.obs = st.obs[:len(st.obs):len(st.obs)]
	n.dirty = st.dirty[:len(st.dirty):len(st.dirty)]
	n.fs, n.fsNoDir, n.tmpCount = st.fs, st.fsNoDir, st.tmpCount
	return n
}

func (st *State) assume(c *Term) {
	if c.isTrue() {
		return
	}
	if c.op == OpAnd {
		for _, a := range c.args {
			st.assume(a)
		}
		return
	}
	st.pc = append(st.pc[:len(st.pc):len(st.pc)], c)
	if st.model != nil && st.model.eval(c) == 0 {
		st.model = nil
	}
}

func (st *State) alloc(v Value) int {
	st.nextID++
	st.heap[st.nextID] = v
	return st.nextID
}

func (st *State) get(obj int) Value {
	if v, ok := st.heap[obj]; ok {
		return v
	}
	if v, ok := st.base[obj]; ok {
		return v
	}
	panic(engineErr(fmt.Sprintf("dangling object %d", obj)))
}

func (st *State) set(obj int, v Value) {
	st.heap[obj] = v
	st.dirty = append(st.dirty, obj)
}

// navigate returns the sub-value at path.
func navigate(v Value, path []int) Value {
	for _, i := range path {
		switch x := v.(type) {
		case *StructV:
			v = x.f[i]
		case *ArrV:
			if i < 0 || i >= len(x.e) {
				panic(engineErr(fmt.Sprintf("navigate: index %d out of %d", i, len(x.e))))
			}
			v = x.e[i]
		default:
			panic(engineErr(fmt.Sprintf("navigate into %T", v)))
		}
	}
	return v
}

func update(v Value, path []int, nv Value) Value {
	if len(path) == 0 {
		return nv
	}
	i := path[0]
	switch x := v.(type) {
	case *StructV:
		f := make([]Value, len(x.f))
		copy(f, x.f)
		f[i] = update(x.f[i], path[1:], nv)
		return &StructV{f}
	case *ArrV:
		e := make([]Value, len(x.e))
		copy(e, x.e)
		e[i] = update(x.e[i], path[1:], nv)
		return &ArrV{e}
	}
	panic(engineErr(fmt.Sprintf("update into %T", v)))
}

func (st *State) load(p PtrV) Value {
	root := st.get(p.obj)
	v := navigate(root, p.path)
	if p.idx != nil {
		arr := v.(*ArrV)
		return iteChain(p.idx, arr.e)
	}
	return v
}

func iteChain(idx *Term, elems []Value) Value {
	if len(elems) == 0 {
		panic(engineErr("iteChain on empty array"))
	}
	res := elems[len(elems)-1]
	for i := len(elems) - 2; i >= 0; i-- {
		res = mergeValue(mkEq(idx, mkInt(int64(i))), elems[i], res)
	}
	return res
}

func (st *State) store(p PtrV, v Value) {
	root := st.get(p.obj)
	if p.idx != nil {
		arr := navigate(root, p.path).(*ArrV)
		e := make([]Value, len(arr.e))
		for i := range arr.e {
			e[i] = mergeValue(mkEq(p.idx, mkInt(int64(i))), v, arr.e[i])
		}
		st.set(p.obj, update(root, p.path, &ArrV{e}))
		return
	}
	st.set(p.obj, update(root, p.path, v))
}

// mergeValue builds ite(c, a, b) structurally; panics (engineErr) when shapes differ.
func mergeValue(c *Term, a, b Value) Value {
	if c.isTrue() {
		return a
	}
	if c.isFalse() {
		return b
	}
	switch x := a.(type) {
	case *Term:
		y, ok := b.(*Term)
		if !ok {
			break
		}
		return mkIte(c, x, y)
	case StrV:
		y, ok := b.(StrV)
		if !ok || x.length() != y.length() {
			break
		}
		if x.isConcrete() && y.isConcrete() && x.s == y.s {
			return x
		}
		out := make([]*Term, x.length())
		for i := range out {
			out[i] = mkIte(c, x.at(i), y.at(i))
		}
		return strFromTerms(out)
	case *StructV:
		y, ok := b.(*StructV)
		if !ok || len(x.f) != len(y.f) {
			break
		}
		if x == y {
			return x
		}
		f := make([]Value, len(x.f))
		for i := range f {
			f[i] = mergeValue(c, x.f[i], y.f[i])
		}
		return &StructV{f}
	case *ArrV:
		y, ok := b.(*ArrV)
		if !ok || len(x.e) != len(y.e) {
			break
		}
		if x == y {
			return x
		}
		e := make([]Value, len(x.e))
		for i := range e {
			e[i] = mergeValue(c, x.e[i], y.e[i])
		}
		return &ArrV{e}
	case PtrV:
		y, ok := b.(PtrV)
		if ok && samePtr(x, y) {
			return x
		}
	case SliceV:
		if y, ok := b.(SliceV); ok && x == y {
			return x
		}
	case IfaceV:
		y, ok := b.(IfaceV)
		if !ok {
			break
		}
		if x.t == nil && y.t == nil {
			return x
		}
		if x.t != nil && y.t != nil && types.Identical(x.t, y.t) {
			return IfaceV{x.t, mergeValue(c, x.v, y.v)}
		}
	case *FuncV:
		if y, ok := b.(*FuncV); ok && x == y {
			return x
		}
		if y, ok := b.(*FuncV); ok && x != nil && y != nil && x.fn == y.fn && x.native == y.native && len(x.free) == len(y.free) {
			fr := make([]Value, len(x.free))
			for i := range fr {
				fr[i] = mergeValue(c, x.free[i], y.free[i])
			}
			return &FuncV{fn: x.fn, free: fr, native: x.native}
		}
	case MapV:
		if y, ok := b.(MapV); ok && x == y {
			return x
		}
	case TupleV:
		y, ok := b.(TupleV)
		if !ok || len(x) != len(y) {
			break
		}
		out := make(TupleV, len(x))
		for i := range out {
			out[i] = mergeValue(c, x[i], y[i])
		}
		return out
	case nil:
		if b == nil {
			return nil
		}
	case float64:
		if y, ok := b.(float64); ok && x == y {
			return x
		}
	case *MapObj:
		if y, ok := b.(*MapObj); ok && x == y {
			return x
		}
	case *IterObj:
		if y, ok := b.(*IterObj); ok && x == y {
			return x
		}
	case OpaqueV:
		if y, ok := b.(OpaqueV); ok && x == y {
			return x
		}
	}
	panic(mergeFail{})
}

type mergeFail struct{}

func samePtr(a, b PtrV) bool {
	if a.obj != b.obj || len(a.path) != len(b.path) || a.idx != b.idx {
		return false
	}
	for i := range a.path {
		if a.path[i] != b.path[i] {
			return false
		}
	}
	return true
}

// shapeSig writes a signature of the concrete shape of v (everything except
// scalar contents), used to group outcomes for merging.
var sigConcrete = false // per-call flag set through shapeSigMode

func shapeSig(sb *strings.Builder, v Value) { shapeSigM(sb, v, false) }

// shapeSigM: with conc=true concrete scalars and strings are part of the
// signature, so merging never turns two different concrete values into a
// symbolic one (policy "concrete", used by the text harnesses where offsets
// and lengths must stay concrete).
func shapeSigM(sb *strings.Builder, v Value, conc bool) {
	switch x := v.(type) {
	case *Term:
		if x.sort == SBool {
			sb.WriteByte('b')
		} else {
			sb.WriteByte('i')
		}
		if conc && x.isConst() {
			fmt.Fprintf(sb, "=%d", x.k)
		}
	case StrV:
		fmt.Fprintf(sb, "s%d", x.length())
		if conc && x.isConcrete() {
			sb.WriteString("=" + x.s)
		}
	case *StructV:
		sb.WriteByte('{')
		for _, f := range x.f {
			shapeSigM(sb, f, conc)
		}
		sb.WriteByte('}')
	case *ArrV:
		sb.WriteByte('[')
		for _, f := range x.e {
			shapeSigM(sb, f, conc)
		}
		sb.WriteByte(']')
	case PtrV:
		fmt.Fprintf(sb, "p%d%v", x.obj, x.path)
		if x.idx != nil {
			fmt.Fprintf(sb, "@%d", x.idx.id)
		}
	case SliceV:
		fmt.Fprintf(sb, "S%d:%d:%d:%d", x.obj, x.off, x.len, x.cap)
	case IfaceV:
		if x.t == nil {
			sb.WriteString("I0")
		} else {
			sb.WriteString("I<" + x.t.String() + ">")
			shapeSigM(sb, x.v, conc)
		}
	case *FuncV:
		if x == nil {
			sb.WriteString("F0")
		} else {
			fmt.Fprintf(sb, "F%p%s(", x.fn, x.native)
			for _, f := range x.free {
				shapeSigM(sb, f, conc)
			}
			sb.WriteByte(')')
		}
	case MapV:
		fmt.Fprintf(sb, "M%d", x.obj)
	case TupleV:
		sb.WriteByte('(')
		for _, f := range x {
			shapeSigM(sb, f, conc)
		}
		sb.WriteByte(')')
	case nil:
		sb.WriteByte('n')
	case float64:
		fmt.Fprintf(sb, "f%v", x)
	case *MapObj:
		fmt.Fprintf(sb, "mo%p", x)
	case *IterObj:
		fmt.Fprintf(sb, "it%p", x)
	case IterV:
		fmt.Fprintf(sb, "iv%d", x.obj)
	case OpaqueV:
		fmt.Fprintf(sb, "O%s%v", x.kind, x.v)
	default:
		fmt.Fprintf(sb, "?%T", v)
	}
}

// ---- zero values ---------------------------------------------------------

func zeroValue(t types.Type) Value {
	switch u := t.Underlying().(type) {
	case *types.Basic:
		switch {
		case u.Info()&types.IsBoolean != 0:
			return tFalse
		case u.Info()&types.IsInteger != 0:
			return mkInt(0)
		case u.Info()&types.IsString != 0:
			return StrV{}
		case u.Info()&types.IsFloat != 0:
			return float64(0)
		case u.Kind() == types.UnsafePointer:
			return PtrV{}
		case u.Kind() == types.UntypedNil:
			return nil
		}
		panic(engineErr("zeroValue basic " + u.String()))
	case *types.Struct:
		f := make([]Value, u.NumFields())
		for i := range f {
			f[i] = zeroValue(u.Field(i).Type())
		}
		return &StructV{f}
	case *types.Array:
		n := int(u.Len())
		e := make([]Value, n)
		if n > 0 {
			z := zeroValue(u.Elem())
			for i := range e {
				e[i] = z
			}
		}
		return &ArrV{e}
	case *types.Pointer:
		return PtrV{}
	case *types.Slice:
		return SliceV{}
	case *types.Interface:
		return IfaceV{}
	case *types.Signature:
		return (*FuncV)(nil)
	case *types.Map:
		return MapV{}
	case *types.Chan:
		return OpaqueV{kind: "chan"}
	case *types.Tuple:
		out := make(TupleV, u.Len())
		for i := range out {
			out[i] = zeroValue(u.At(i).Type())
		}
		return out
	}
	panic(engineErr("zeroValue " + t.String()))
}

// ---- debugging -------------------------------------------------------------

func showValue(v Value, d int) string {
	switch x := v.(type) {
	case *Term:
		return x.render(4)
	case StrV:
		if x.isConcrete() {
			return fmt.Sprintf("%q", x.s)
		}
		return fmt.Sprintf("symstr[%d]", len(x.sym))
	case *StructV:
		if d == 0 {
			return "{…}"
		}
		parts := make([]string, len(x.f))
		for i, f := range x.f {
			parts[i] = showValue(f, d-1)
		}
		return "{" + strings.Join(parts, " ") + "}"
	case *ArrV:
		if d == 0 || len(x.e) > 16 {
			return fmt.Sprintf("[%d…]", len(x.e))
		}
		parts := make([]string, len(x.e))
		for i, f := range x.e {
			parts[i] = showValue(f, d-1)
		}
		return "[" + strings.Join(parts, " ") + "]"
	case PtrV:
		if x.isNil() {
			return "nilptr"
		}
		return fmt.Sprintf("&obj%d%v", x.obj, x.path)
	case SliceV:
		return fmt.Sprintf("slice(obj%d off=%d len=%d cap=%d)", x.obj, x.off, x.len, x.cap)
	case IfaceV:
		if x.t == nil {
			return "nil-iface"
		}
		return x.t.String() + ":" + showValue(x.v, d)
	case *FuncV:
		if x == nil {
			return "nilfunc"
		}
		if x.fn != nil {
			return "func " + x.fn.String()
		}
		return "native " + x.native
	case TupleV:
		parts := make([]string, len(x))
		for i, f := range x {
			parts[i] = showValue(f, d)
		}
		return "(" + strings.Join(parts, ", ") + ")"
	case nil:
		return "nil"
	}
	return fmt.Sprintf("%T", v)
}

type engineErr string

func (e engineErr) Error() string { return string(e) }

// Unsupported is raised (as a Go panic) when the code under test leaves the
// fragment the engine encodes; the job is then inconclusive, never a pass.
type Unsupported struct{ msg string }

func unsupported(format string, args ...interface{}) {
	panic(Unsupported{fmt.Sprintf(format, args...)})
}
