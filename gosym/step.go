package main

import (
	"fmt"
	"go/token"
	"go/types"

	"golang.org/x/tools/go/ssa"
)

func rtPanic(w *Worker, f *frame, in ssa.Instruction, kind string) *PanicV {
	return &PanicV{runtime: kind, site: w.pos(in.Pos(), f)}
}

// step executes one non-control instruction; returns a panic payload if the
// instruction panics on this path.
func (w *Worker) step(f *frame, in ssa.Instruction, work *[]*frame) *PanicV {
	st := f.st
	switch x := in.(type) {
	case *ssa.Alloc:
		t := x.Type().Underlying().(*types.Pointer).Elem()
		id := st.alloc(zeroValue(t))
		f.set(x, PtrV{obj: id})
	case *ssa.Phi:
		// evaluate all phis of the block in parallel
		blk := f.block
		var idx int = -1
		for i, p := range blk.Preds {
			if p == f.prev {
				idx = i
				break
			}
		}
		if idx < 0 {
			panic(engineErr("phi: no pred"))
		}
		n := 0
		var vals []Value
		for _, ins := range blk.Instrs[f.ip:] {
			ph, ok := ins.(*ssa.Phi)
			if !ok {
				break
			}
			vals = append(vals, f.get(w, ph.Edges[idx]))
			n++
		}
		for i := 0; i < n; i++ {
			f.set(blk.Instrs[f.ip+i].(*ssa.Phi), vals[i])
		}
		f.ip += n - 1
	case *ssa.BinOp:
		v, p := w.binop(f, x, work)
		if p != "" {
			return rtPanic(w, f, x, p)
		}
		f.set(x, v)
	case *ssa.UnOp:
		if x.Op == token.MUL {
			ptr := f.get(w, x.X).(PtrV)
			if ptr.isNil() {
				return rtPanic(w, f, x, "nil pointer dereference")
			}
			if w.eng.uninitGlobal[ptr.obj] {
				unsupported("read of global in a package whose init is not executed: %s", w.eng.globalName[ptr.obj])
			}
			f.set(x, st.load(ptr))
			return nil
		}
		f.set(x, w.unop(x, f.get(w, x.X)))
	case *ssa.Store:
		ptr := f.get(w, x.Addr).(PtrV)
		if ptr.isNil() {
			return rtPanic(w, f, x, "nil pointer dereference")
		}
		st.store(ptr, f.get(w, x.Val))
	case *ssa.FieldAddr:
		ptr := f.get(w, x.X).(PtrV)
		if ptr.isNil() {
			return rtPanic(w, f, x, "nil pointer dereference")
		}
		if ptr.idx != nil {
			ptr = w.concretizePtr(f, ptr, work)
		}
		np := PtrV{obj: ptr.obj, path: append(ptr.path[:len(ptr.path):len(ptr.path)], x.Field)}
		f.set(x, np)
	case *ssa.Field:
		s := f.get(w, x.X).(*StructV)
		f.set(x, s.f[x.Field])
	case *ssa.IndexAddr:
		base := f.get(w, x.X)
		idx := f.get(w, x.Index).(*Term)
		switch b := base.(type) {
		case SliceV:
			if p := w.boundsCheck(f, idx, b.len, work); p {
				return rtPanic(w, f, x, "index out of range")
			}
			if idx.isConst() {
				f.set(x, PtrV{obj: b.obj, path: []int{b.off + int(idx.k)}})
			} else {
				et := x.X.Type().Underlying().(*types.Slice).Elem()
				if isScalarType(et) && b.off == 0 && w.arrLen(st, b.obj) == b.len {
					f.set(x, PtrV{obj: b.obj, idx: idx})
				} else if isScalarType(et) {
					f.set(x, PtrV{obj: b.obj, idx: mkAdd(idx, mkInt(int64(b.off)))})
				} else {
					k := w.pick(f, idx, 64, work, "slice index")
					f.set(x, PtrV{obj: b.obj, path: []int{b.off + int(k)}})
				}
			}
		case PtrV: // pointer to array
			if b.isNil() {
				return rtPanic(w, f, x, "nil pointer dereference")
			}
			n := int(x.X.Type().Underlying().(*types.Pointer).Elem().Underlying().(*types.Array).Len())
			if p := w.boundsCheck(f, idx, n, work); p {
				return rtPanic(w, f, x, "index out of range")
			}
			if idx.isConst() {
				f.set(x, PtrV{obj: b.obj, path: append(b.path[:len(b.path):len(b.path)], int(idx.k))})
			} else {
				et := x.X.Type().Underlying().(*types.Pointer).Elem().Underlying().(*types.Array).Elem()
				if isScalarType(et) {
					f.set(x, PtrV{obj: b.obj, path: b.path, idx: idx})
				} else {
					k := w.pick(f, idx, 64, work, "array index")
					f.set(x, PtrV{obj: b.obj, path: append(b.path[:len(b.path):len(b.path)], int(k))})
				}
			}
		default:
			panic(engineErr(fmt.Sprintf("IndexAddr on %T", base)))
		}
	case *ssa.Index:
		base := f.get(w, x.X)
		idx := f.get(w, x.Index).(*Term)
		switch b := base.(type) {
		case StrV:
			if p := w.boundsCheck(f, idx, b.length(), work); p {
				return rtPanic(w, f, x, "index out of range")
			}
			if idx.isConst() {
				f.set(x, b.at(int(idx.k)))
			} else {
				bs := b.bytes()
				vs := make([]Value, len(bs))
				for i := range bs {
					vs[i] = bs[i]
				}
				f.set(x, iteChain(idx, vs))
			}
		case *ArrV:
			if p := w.boundsCheck(f, idx, len(b.e), work); p {
				return rtPanic(w, f, x, "index out of range")
			}
			if idx.isConst() {
				f.set(x, b.e[idx.k])
			} else {
				f.set(x, iteChain(idx, b.e))
			}
		default:
			panic(engineErr(fmt.Sprintf("Index on %T", base)))
		}
	case *ssa.Slice:
		return w.sliceOp(f, x, work)
	case *ssa.MakeSlice:
		n := int(w.pick(f, f.get(w, x.Len).(*Term), 64, work, "make len"))
		c := int(w.pick(f, f.get(w, x.Cap).(*Term), 64, work, "make cap"))
		if n < 0 || c < n {
			return rtPanic(w, f, x, "makeslice: len out of range")
		}
		et := x.Type().Underlying().(*types.Slice).Elem()
		e := make([]Value, c)
		if c > 0 {
			z := zeroValue(et)
			for i := range e {
				e[i] = z
			}
		}
		id := st.alloc(&ArrV{e})
		f.set(x, SliceV{obj: id, off: 0, len: n, cap: c})
	case *ssa.MakeInterface:
		f.set(x, IfaceV{t: x.X.Type(), v: f.get(w, x.X)})
	case *ssa.ChangeInterface:
		f.set(x, f.get(w, x.X))
	case *ssa.ChangeType:
		f.set(x, f.get(w, x.X))
	case *ssa.Convert:
		f.set(x, w.convert(f, x, f.get(w, x.X), work))
	case *ssa.TypeAssert:
		v := f.get(w, x.X).(IfaceV)
		ok := false
		var res Value
		if _, isIface := x.AssertedType.Underlying().(*types.Interface); isIface {
			if v.t != nil && w.eng.implements(v.t, x.AssertedType) {
				ok, res = true, v
			} else {
				res = IfaceV{}
			}
		} else {
			if v.t != nil && types.Identical(v.t, x.AssertedType) {
				ok, res = true, v.v
			} else {
				res = zeroValue(x.AssertedType)
			}
		}
		if x.CommaOk {
			f.set(x, TupleV{res, mkBool(ok)})
		} else {
			if !ok {
				return rtPanic(w, f, x, fmt.Sprintf("interface conversion: %v is not %s", typeName(v.t), x.AssertedType))
			}
			f.set(x, res)
		}
	case *ssa.Extract:
		f.set(x, f.get(w, x.Tuple).(TupleV)[x.Index])
	case *ssa.MakeClosure:
		fn := x.Fn.(*ssa.Function)
		free := make([]Value, len(x.Bindings))
		for i, b := range x.Bindings {
			free[i] = f.get(w, b)
		}
		f.set(x, &FuncV{fn: fn, free: free})
	case *ssa.MakeMap:
		id := st.alloc(&MapObj{})
		f.set(x, MapV{obj: id})
	case *ssa.MapUpdate:
		m := f.get(w, x.Map).(MapV)
		if m.obj == 0 {
			return rtPanic(w, f, x, "assignment to entry in nil map")
		}
		key := f.get(w, x.Key)
		mo := st.get(m.obj).(*MapObj)
		i := w.mapFind(f, mo, key, work)
		nm := &MapObj{keys: append([]Value(nil), mo.keys...), vals: append([]Value(nil), mo.vals...)}
		if i >= 0 {
			nm.vals[i] = f.get(w, x.Value)
		} else {
			nm.keys = append(nm.keys, key)
			nm.vals = append(nm.vals, f.get(w, x.Value))
		}
		st.set(m.obj, nm)
	case *ssa.Lookup:
		base := f.get(w, x.X)
		switch b := base.(type) {
		case MapV:
			vt := x.X.Type().Underlying().(*types.Map).Elem()
			var res Value
			found := false
			if b.obj != 0 {
				mo := st.get(b.obj).(*MapObj)
				i := w.mapFind(f, mo, f.get(w, x.Index), work)
				if i >= 0 {
					res, found = mo.vals[i], true
				}
			}
			if !found {
				res = zeroValue(vt)
			}
			if x.CommaOk {
				f.set(x, TupleV{res, mkBool(found)})
			} else {
				f.set(x, res)
			}
		case StrV:
			idx := f.get(w, x.Index).(*Term)
			if p := w.boundsCheck(f, idx, b.length(), work); p {
				return rtPanic(w, f, x, "index out of range")
			}
			if idx.isConst() {
				f.set(x, b.at(int(idx.k)))
			} else {
				bs := b.bytes()
				vs := make([]Value, len(bs))
				for i := range bs {
					vs[i] = bs[i]
				}
				f.set(x, iteChain(idx, vs))
			}
		default:
			panic(engineErr(fmt.Sprintf("Lookup on %T", base)))
		}
	case *ssa.Range:
		base := f.get(w, x.X)
		it := &IterObj{}
		switch b := base.(type) {
		case MapV:
			it.isMap = true
			if b.obj != 0 {
				mo := st.get(b.obj).(*MapObj)
				it.keys, it.vals = mo.keys, mo.vals
				if w.eng.mapOrderReverse {
					n := len(mo.keys)
					it.keys, it.vals = make([]Value, n), make([]Value, n)
					for i := range mo.keys {
						it.keys[n-1-i], it.vals[n-1-i] = mo.keys[i], mo.vals[i]
					}
				}
			}
		case StrV:
			it.str = b
		default:
			panic(engineErr(fmt.Sprintf("Range on %T", base)))
		}
		id := st.alloc(it)
		f.set(x, IterV{obj: id})
	case *ssa.Next:
		iv := f.get(w, x.Iter).(IterV)
		it := st.get(iv.obj).(*IterObj)
		if it.isMap {
			if it.pos >= len(it.keys) {
				f.set(x, TupleV{tFalse, nil, nil})
			} else {
				f.set(x, TupleV{tTrue, it.keys[it.pos], it.vals[it.pos]})
				n := *it
				n.pos++
				st.set(iv.obj, &n)
			}
		} else {
			if it.pos >= it.str.length() {
				f.set(x, TupleV{tFalse, mkInt(0), mkInt(0)})
			} else {
				c := it.str.at(it.pos)
				if c.isConst() && c.k >= 0x80 {
					// decode concretely
					if !it.str.isConcrete() {
						unsupported("range over string with non-ASCII symbolic content")
					}
					r, size := decodeRune(it.str.s[it.pos:])
					f.set(x, TupleV{tTrue, mkInt(int64(it.pos)), mkInt(int64(r))})
					n := *it
					n.pos += size
					st.set(iv.obj, &n)
				} else {
					if !c.isConst() && c.hi >= 0x80 {
						if !w.decide(f, mkLt(c, mkInt(0x80)), work) {
							return &PanicV{runtime: "CUT: UTF-8 decoding of a symbolic non-ASCII byte (range over string)", site: w.pos(x.Pos(), f)}
						}
					}
					f.set(x, TupleV{tTrue, mkInt(int64(it.pos)), c})
					n := *it
					n.pos++
					st.set(iv.obj, &n)
				}
			}
		}
	case *ssa.DebugRef:
	case *ssa.SliceToArrayPointer:
		unsupported("SliceToArrayPointer")
	case *ssa.Select, *ssa.Send, *ssa.MakeChan:
		unsupported("channel operation %T in %s", in, f.fn)
	default:
		unsupported("instruction %T in %s", in, f.fn)
	}
	return nil
}

func typeName(t types.Type) string {
	if t == nil {
		return "nil"
	}
	return t.String()
}

func decodeRune(s string) (rune, int) {
	for i, r := range s {
		_ = i
		n := len(string(r))
		if r == 0xFFFD {
			n = 1
		}
		return r, n
	}
	return 0xFFFD, 1
}

func isScalarType(t types.Type) bool {
	b, ok := t.Underlying().(*types.Basic)
	return ok && b.Info()&(types.IsInteger|types.IsBoolean) != 0
}

func (w *Worker) arrLen(st *State, obj int) int {
	if obj == 0 {
		return 0
	}
	return len(st.get(obj).(*ArrV).e)
}

// boundsCheck returns true when the path continues on the "out of range" side.
func (w *Worker) boundsCheck(f *frame, idx *Term, n int, work *[]*frame) bool {
	if idx.isConst() {
		return idx.k < 0 || idx.k >= int64(n)
	}
	in := mkAnd(mkLe(mkInt(0), idx), mkLt(idx, mkInt(int64(n))))
	return !w.decide(f, in, work)
}

func (w *Worker) concretizePtr(f *frame, p PtrV, work *[]*frame) PtrV {
	k := w.pick(f, p.idx, 64, work, "pointer index")
	return PtrV{obj: p.obj, path: append(p.path[:len(p.path):len(p.path)], int(k))}
}

// mapFind returns the index of key in mo or -1, forking on symbolic equality.
func (w *Worker) mapFind(f *frame, mo *MapObj, key Value, work *[]*frame) int {
	for i, k := range mo.keys {
		c := w.valuesEqual(f.st, k, key)
		if c.isFalse() {
			continue
		}
		if w.decide(f, c, work) {
			return i
		}
	}
	return -1
}

func (w *Worker) sliceOp(f *frame, x *ssa.Slice, work *[]*frame) *PanicV {
	st := f.st
	base := f.get(w, x.X)
	getIdx := func(v ssa.Value, def int, lim int, what string) int {
		if v == nil {
			return def
		}
		t := f.get(w, v).(*Term)
		if t.isConst() {
			return int(t.k)
		}
		// enumerate feasible values in [.., lim] plus one out-of-range representative
		return int(w.pickClamped(f, t, -1, int64(lim)+1, work, what))
	}
	switch b := base.(type) {
	case StrV:
		n := b.length()
		lo := getIdx(x.Low, 0, n, "string slice low")
		hi := getIdx(x.High, n, n, "string slice high")
		if lo < 0 || hi > n || lo > hi {
			return rtPanic(w, f, x, "slice bounds out of range")
		}
		if b.isConcrete() {
			f.set(x, StrV{s: b.s[lo:hi]})
		} else {
			f.set(x, strFromTerms(b.sym[lo:hi]))
		}
	case SliceV:
		lo := getIdx(x.Low, 0, b.cap, "slice low")
		hi := getIdx(x.High, b.len, b.cap, "slice high")
		mx := getIdx(x.Max, b.cap, b.cap, "slice max")
		if lo < 0 || hi > mx || lo > hi || mx > b.cap {
			return rtPanic(w, f, x, "slice bounds out of range")
		}
		if b.obj == 0 {
			f.set(x, SliceV{})
		} else {
			f.set(x, SliceV{obj: b.obj, off: b.off + lo, len: hi - lo, cap: mx - lo})
		}
	case PtrV: // *array
		if b.isNil() {
			return rtPanic(w, f, x, "nil pointer dereference")
		}
		arr := navigate(st.get(b.obj), b.path).(*ArrV)
		n := len(arr.e)
		lo := getIdx(x.Low, 0, n, "array slice low")
		hi := getIdx(x.High, n, n, "array slice high")
		mx := getIdx(x.Max, n, n, "array slice max")
		if lo < 0 || hi > mx || lo > hi || mx > n {
			return rtPanic(w, f, x, "slice bounds out of range")
		}
		if len(b.path) != 0 {
			unsupported("slicing an array nested inside another object")
		}
		f.set(x, SliceV{obj: b.obj, off: lo, len: hi - lo, cap: mx - lo})
	default:
		panic(engineErr(fmt.Sprintf("Slice on %T", base)))
	}
	return nil
}

// pickClamped concretises t after clamping it into [lo,hi] (values below lo
// are represented by lo, above hi by hi), so out-of-range indexes cost one
// representative each instead of an unbounded enumeration.
func (w *Worker) pickClamped(f *frame, t *Term, lo, hi int64, work *[]*frame, what string) int64 {
	if t.lo >= lo && t.hi <= hi {
		return w.pick(f, t, int(hi-lo)+2, work, what)
	}
	if w.decide(f, mkLt(t, mkInt(lo)), work) {
		return lo
	}
	if w.decide(f, mkLt(mkInt(hi), t), work) {
		return hi
	}
	return w.pick(f, t, int(hi-lo)+2, work, what)
}
