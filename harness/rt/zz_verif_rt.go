package rt

// Native implementation of the harness API (DESIGN §2.1).  The symbolic
// engine intercepts every function marked verif:intrinsic; natively the same
// functions read the solver's model from the JSON file named by VERIF_MODEL,
// so that a harness replays a counterexample (or a witness) against the real
// build.  The package clause is rewritten per package under test.

import (
	"crypto/sha1"
	"encoding/json"
	"fmt"
	"io"
	"os"
	"path/filepath"
	"sort"
	"strconv"
)

type vModelT struct {
	Harness string           `json:"harness"`
	Shard   int              `json:"shard"`
	Tier    int              `json:"tier"`
	Vars    map[string]int64 `json:"vars"`
	Choices map[string]int   `json:"choices"`
	UF      map[string]int64 `json:"uf"`
}

var vModelP *vModelT
var vNameCtr map[string]int

type vSkip struct{ why string }

func vLoadModel() *vModelT {
	if vModelP != nil {
		return vModelP
	}
	m := &vModelT{}
	if p := os.Getenv("VERIF_MODEL"); p != "" {
		b, err := os.ReadFile(p)
		if err != nil {
			panic(err)
		}
		if err := json.Unmarshal(b, m); err != nil {
			panic(err)
		}
	}
	vModelP = m
	vNameCtr = map[string]int{}
	return m
}

// vResetModel installs a model directly (used by the replay driver).
func vResetModel(m *vModelT) {
	vModelP = m
	vNameCtr = map[string]int{}
}

func vUnique(name string) string {
	vLoadModel()
	vNameCtr[name]++
	if n := vNameCtr[name]; n > 1 {
		return name + "#" + strconv.Itoa(n)
	}
	return name
}

//verif:intrinsic
func vIntIn(name string, lo, hi int) int {
	m := vLoadModel()
	name = vUnique(name)
	if lo == hi {
		return lo
	}
	v, ok := m.Vars[name]
	if !ok {
		if lo <= 0 && 0 <= hi {
			return 0
		}
		return lo
	}
	if int(v) < lo || int(v) > hi {
		panic(vSkip{"model value out of range for " + name})
	}
	return int(v)
}

//verif:intrinsic
func vBool(name string) bool {
	m := vLoadModel()
	return m.Vars[vUnique(name)] != 0
}

//verif:intrinsic
func vByte(name string) byte { return byte(vIntIn(name, 0, 255)) }

//verif:intrinsic
func vBytes(name string, n int) []byte {
	p := make([]byte, n)
	for i := range p {
		p[i] = byte(vIntIn(fmt.Sprintf("%s[%d]", name, i), 0, 255))
	}
	return p
}

//verif:intrinsic
func vBytesIn(name string, n int, lo, hi int) []byte {
	p := make([]byte, n)
	for i := range p {
		p[i] = byte(vIntIn(fmt.Sprintf("%s[%d]", name, i), lo, hi))
	}
	return p
}

//verif:intrinsic
func vChoice(name string, n int) int {
	m := vLoadModel()
	k := m.Choices[vUnique(name)]
	if k < 0 || k >= n {
		panic(vSkip{"choice out of range"})
	}
	return k
}

//verif:intrinsic
func vShard(n int) int { return vLoadModel().Shard }

//verif:intrinsic
func vTier() int { return vLoadModel().Tier }

//verif:intrinsic
func vAssume(c bool) {
	if !c {
		panic(vSkip{"assumption false"})
	}
}

//verif:intrinsic
func vAssert(label string, c bool) {
	if !c {
		fmt.Printf("ASSERT-FAIL %s\n", label)
	} else {
		fmt.Printf("ASSERT-OK %s\n", label)
	}
}

//verif:intrinsic
func vCover(label string) { fmt.Printf("COVER %s\n", label) }

//verif:intrinsic
func vObserve(name string, v interface{}) { fmt.Printf("OBS %s=%v\n", name, v) }

//verif:intrinsic
func vIte(c bool, a, b int) int {
	if c {
		return a
	}
	return b
}

//verif:intrinsic
func vIteB(c bool, a, b bool) bool {
	if c {
		return a
	}
	return b
}

//verif:intrinsic
func vAnd(a, b bool) bool { return a && b }

//verif:intrinsic
func vOr(a, b bool) bool { return a || b }

//verif:intrinsic
func vImplies(a, b bool) bool { return !a || b }

//verif:intrinsic
func vMin(a, b int) int {
	if a < b {
		return a
	}
	return b
}

//verif:intrinsic
func vMax(a, b int) int {
	if a < b {
		return b
	}
	return a
}

//verif:intrinsic
func vPanics(f func()) (p bool) {
	defer func() {
		if r := recover(); r != nil {
			if s, ok := r.(vSkip); ok {
				panic(s)
			}
			fmt.Printf("PANIC %v\n", r)
			p = true
		}
	}()
	f()
	return false
}

//verif:intrinsic
func vUF(name string, args ...int) int {
	m := vLoadModel()
	k := name + "("
	for _, a := range args {
		k += strconv.Itoa(a) + ","
	}
	k += ")"
	return int(m.UF[k])
}

//verif:intrinsic
func vConcrete(x int) int { return x }

//verif:intrinsic
func vLog(v interface{}) {}

// ---- model file system access (natively: real files under a temporary directory) ----

var vTempDirs []string

//verif:intrinsic
func vTempDir() string {
	d, err := os.MkdirTemp("", "verif-vfs-")
	if err != nil {
		panic(err)
	}
	vTempDirs = append(vTempDirs, d)
	return d
}

//verif:intrinsic
func vFSRead(name string) ([]byte, bool) {
	b, err := os.ReadFile(name)
	return b, err == nil
}

//verif:intrinsic
func vFSWrite(name string, data []byte) {
	if err := os.WriteFile(name, data, 0o644); err != nil {
		panic(err)
	}
}

//verif:intrinsic
func vFSRemove(name string) { os.Remove(name) }

//verif:intrinsic
func vFSList(dir string) []string {
	m, _ := filepath.Glob(filepath.Join(dir, "*"))
	sort.Strings(m)
	return m
}

// vDigest: byte k of the digest of data. Symbolically an uninterpreted function of
// (length, bytes); natively SHA-1.
//
//verif:intrinsic
func vDigest(data []byte, k int) byte {
	// a replayed solver model fixes the digests it depends on (the code is parametric in the hash)
	if m := vLoadModel(); m != nil && len(m.UF) > 0 {
		key := "dg" + strconv.Itoa(len(data)) + "_" + strconv.Itoa(k) + "("
		for _, b := range data {
			key += strconv.Itoa(int(b)) + ","
		}
		if v, ok := m.UF[key+")"]; ok {
			return byte(v)
		}
	}
	s := sha1.Sum(data)
	return s[k]
}

func vCleanupTemp() {
	for _, d := range vTempDirs {
		os.RemoveAll(d)
	}
	vTempDirs = nil
}

// vRunHarness runs one harness natively, converting assumption failures into a SKIP line.
func vRunHarness(name string, f func()) {
	defer vCleanupTemp()
	defer func() {
		if r := recover(); r != nil {
			if s, ok := r.(vSkip); ok {
				fmt.Printf("SKIP %s: %s\n", name, s.why)
				return
			}
			fmt.Printf("HARNESS-PANIC %s: %v\n", name, r)
		}
	}()
	f()
	fmt.Printf("DONE %s\n", name)
}

// ---- models of assembly-backed standard library functions (DESIGN §2.5) --------
// Executed symbolically in place of the named callee; natively unused.

//verif:model internal/bytealg.IndexByte
func vm_IndexByte(b []byte, c byte) int {
	for i := 0; i < len(b); i++ {
		if b[i] == c {
			return i
		}
	}
	return -1
}

//verif:model internal/bytealg.IndexByteString
func vm_IndexByteString(s string, c byte) int {
	for i := 0; i < len(s); i++ {
		if s[i] == c {
			return i
		}
	}
	return -1
}

//verif:model internal/bytealg.Count
func vm_Count(b []byte, c byte) int {
	n := 0
	for i := 0; i < len(b); i++ {
		n += vIte(b[i] == c, 1, 0)
	}
	return n
}

//verif:model internal/bytealg.CountString
func vm_CountString(s string, c byte) int {
	n := 0
	for i := 0; i < len(s); i++ {
		n += vIte(s[i] == c, 1, 0)
	}
	return n
}

//verif:model internal/bytealg.Equal
func vm_Equal(a, b []byte) bool { return string(a) == string(b) }

//verif:model internal/bytealg.Compare
func vm_Compare(a, b []byte) int {
	x, y := string(a), string(b)
	return vIte(x < y, -1, vIte(x == y, 0, 1))
}

//verif:model internal/bytealg.Index
func vm_Index(a, b []byte) int { return vm_IndexString(string(a), string(b)) }

//verif:model internal/bytealg.IndexString
func vm_IndexString(a, b string) int {
	for i := 0; i+len(b) <= len(a); i++ {
		if a[i:i+len(b)] == b {
			return i
		}
	}
	return -1
}

//verif:model internal/bytealg.MakeNoZero
func vm_MakeNoZero(n int) []byte { return make([]byte, n) }

//verif:model io.Copy
func vm_ioCopy(dst io.Writer, src io.Reader) (int64, error) {
	buf := make([]byte, 64)
	var written int64
	for {
		nr, er := src.Read(buf)
		if nr > 0 {
			nw, ew := dst.Write(buf[:nr])
			written += int64(nw)
			if ew != nil {
				return written, ew
			}
			if nw != nr {
				return written, io.ErrShortWrite
			}
		}
		if er != nil {
			if er != io.EOF {
				return written, er
			}
			return written, nil
		}
	}
}

// flate reader model: the stream is the framing the writer model emits — chunks [hi lo data...] ended by
// [0 0]; like DEFLATE it is self-delimiting (bytes after the terminator are not looked at) and a stream that
// ends early is an unexpected EOF (decompression correctness itself is assumed, DESIGN §2.5)
type vmFlateReader struct {
	r    io.Reader
	left int
	done bool
}

func (f *vmFlateReader) Read(p []byte) (int, error) {
	var one [1]byte
	n := 0
	for n < len(p) {
		if f.done {
			break
		}
		if f.left == 0 {
			var hd [2]byte
			if _, err := io.ReadFull(f.r, hd[:]); err != nil {
				if n > 0 {
					return n, nil
				}
				return 0, io.ErrUnexpectedEOF
			}
			f.left = int(hd[0])*256 + int(hd[1])
			if f.left == 0 {
				f.done = true
				break
			}
		}
		if m, _ := f.r.Read(one[:]); m == 0 {
			if n > 0 {
				return n, nil
			}
			return 0, io.ErrUnexpectedEOF
		}
		p[n] = one[0]
		n++
		f.left--
	}
	if n == 0 && f.done && len(p) > 0 {
		return 0, io.EOF
	}
	return n, nil
}
func (f *vmFlateReader) Close() error { return nil }

//verif:model compress/flate.NewReader
func vm_flateNewReader(r io.Reader) io.ReadCloser { return &vmFlateReader{r: r} }

//verif:intrinsic
func vFSNoDir(name string) {}

//verif:intrinsic
func vResetStdio(stdin []byte) {}

// vIsModel: true under the symbolic engine (environment stubs in force), false natively.
//
//verif:intrinsic
func vIsModel() bool { return false }
