package gts

// C10 — Edits are invertible (location level): Expand(i,-n) undoes Shift(i,n) / Expand(i,n).

func vC10Loc(fam int, kinds int, embed bool) {
	L := vIntIn("L", 1, vCap)
	A := vGenFamily("A", fam, L, kinds)
	i := vIntIn("i", 0, vCap)
	n := vIntIn("n", 1, vCap)
	vAssume(i <= L)
	var B Location
	if embed {
		B = A.Expand(i, n)
	} else {
		B = A.Shift(i, n)
	}
	C := B.Expand(i, -n)
	as, cs := vAtoms(A), vAtoms(C)
	vCover("round-trip")
	x := vIntIn("x", 0, vCap)
	vAssume(x < L)
	vAssert("cov-fwd", vCovS(as, x, false) == vCovS(cs, x, false))
	vAssert("cov-rev", vCovS(as, x, true) == vCovS(cs, x, true))
	x2 := vIntIn("x2", 0, vCap)
	vAssume(vAnd(x2 < L, x2 != x))
	both := vAnd(vCov(as, x), vCov(as, x2))
	vAssert("order", vImplies(both, (vFirst(as, x) < vFirst(as, x2)) == (vFirst(cs, x) < vFirst(cs, x2))))
	if len(as) == len(cs) {
		vCover("same-arity")
		for k := range as {
			a, c := as[k], cs[k]
			if a.kind != vkBetween {
				// an original single part comes back as exactly that part (the split re-merges)
				vAssert("part-restored", vAnd(vAnd(a.s == c.s, a.e == c.e), a.kind == c.kind))
				vAssert("markers-restored", vAnd(a.p5 == c.p5, a.p3 == c.p3))
			}
			vAssert("strand-restored", a.rev == c.rev)
		}
	} else {
		vCover("arity-changed")
		a5, a3 := vMarkerCounts(as)
		c5, c3 := vMarkerCounts(cs)
		vAssert("marker-count", vAnd(c5 <= a5, c3 <= a3))
	}
	vObserve("nc", len(cs))
	vObserve("c0.s", cs[0].s)
	vObserve("c0.e", cs[0].e)
}

//verif:harness prop=C10 quick=6 thorough=11
//verif:bounds location level: A.Shift(i,n).Expand(i,-n), n>=1; quick shape families 0..5, thorough 0..10; coordinates, i, n, L symbolic in [0,2^40]
func VH_C10_insert_delete_loc() {
	n := vFamS1
	if vTier() == 1 {
		n = vFamS2
	}
	vC10Loc(vShard(n), 4, false)
}

//verif:harness prop=C10 quick=6 thorough=11
//verif:bounds location level: A.Expand(i,n).Expand(i,-n), n>=1; quick shape families 0..5, thorough 0..10; coordinates, i, n, L symbolic in [0,2^40]
func VH_C10_embed_delete_loc() {
	n := vFamS1
	if vTier() == 1 {
		n = vFamS2
	}
	vC10Loc(vShard(n), 4, true)
}

// ---- API level: cutting at any set of positions and concatenating restores the sequence -------

func vMultS(as []vAtom, x int, rev bool) int {
	n := 0
	for _, a := range as {
		n += vIte(vAnd(a.rev == rev, vAnd(a.s <= x, x < a.e)), 1, 0)
	}
	return n
}

//verif:harness prop=C10 quick=4 thorough=8 merge=concrete timeout=1500
//verif:bounds API level: sequence of 5 (quick) / 6 (thorough) symbolic residues, one tagged feature (range | 2-part join in any order, incl. descending/overlapping parts | complemented range | 2-part order) with symbolic coordinates and partial flags, with or without a source (without: pieces that carry no feature); 1 (quick) / 1..2 (thorough) cut positions anywhere in [0,L] (cuts at 0, at L and coinciding cuts included); Slice for every piece, Concat in order
func VH_C10_slice_concat() {
	sh := vShard(4 + 4*vTier())
	L := 5 + vTier()
	data := vBytes("r", L)
	loc := vGenApiLoc("f", L, sh%4)
	ff := FeatureSlice{}
	if vBool("src") {
		// with a source every piece carries a feature; without one a piece may carry none
		ff = ff.Insert(Feature{"source", Range(0, L), vFeatTag(0)})
	}
	ff = ff.Insert(Feature{"gene", loc, vFeatTag(1)})
	seq := Sequence(New(nil, ff, data))
	c1 := vIntIn("c1", 0, L)
	cuts := []int{c1}
	if sh >= 4 {
		c2 := vIntIn("c2", 0, L)
		vAssume(c1 <= c2)
		cuts = append(cuts, c2)
	}
	var pieces []Sequence
	prev := 0
	for _, c := range cuts {
		pieces = append(pieces, Slice(seq, prev, c))
		prev = c
	}
	pieces = append(pieces, Slice(seq, prev, L))
	vCover("cut")
	total := 0
	for _, p := range pieces {
		total += len(p.Bytes())
	}
	vAssert("pieces-partition-the-residues", total == L)
	cat := Concat(pieces...)
	got := cat.Bytes()
	vAssert("length-restored", len(got) == L)
	if len(got) == L {
		for i := 0; i < L; i++ {
			vAssert("residues-restored", got[i] == data[i])
		}
	}
	// the pieces of the feature together denote exactly the residues of the original, each on its strand
	as := vAtoms(loc)
	var frag []vAtom
	for _, f := range cat.Features() {
		if f.Key == "gene" {
			frag = append(frag, vAtoms(f.Loc)...)
		}
	}
	x := vIntIn("x", 0, L)
	vAssume(x < L)
	vAssert("feature-pieces-fwd", vMultS(frag, x, false) == vMultS(as, x, false))
	vAssert("feature-pieces-rev", vMultS(frag, x, true) == vMultS(as, x, true))
	vAssert("argument-unchanged", len(seq.Bytes()) == L)
	vObserve("npieces", len(pieces))
}

//verif:harness prop=C10 quick=2 thorough=4 merge=concrete
//verif:bounds Concat of a head of 0..3 residues, a middle of 0..2 residues and a tail of 2 (quick) / 2..3 residues; the middle (unless it is bare: residues without any feature) and the tail each hold one atom (range with flags | point | between-site incl. the site before the first residue) with symbolic coordinates: every feature lands at its own coordinates plus the length of everything before its piece, kind, strand and flags unchanged
func VH_C10_concat_offsets() {
	sh := vShard(2 + 2*vTier())
	Lc := 2 + sh/2
	La := vChoice("La", 4)
	Lb := vChoice("Lb", 3)
	a := New(nil, nil, vBytes("a", La))
	mk := func(name string, L int, tag int) (Sequence, Location) {
		if L == 0 {
			return New(nil, nil, nil), nil
		}
		loc := vGenAtom(name, L, 3)
		if sh%2 == 1 {
			loc = loc.Complement()
		}
		ff := FeatureSlice{}
		ff = ff.Insert(Feature{"gene", loc, vFeatTag(tag)})
		return New(nil, ff, vBytes(name+"r", L)), loc
	}
	b, locB := mk("g", Lb, 1)
	if Lb > 0 && vBool("g.bare") {
		// a middle piece with residues and no feature at all (what a cut through an intergenic stretch gives)
		b, locB = New(nil, nil, vBytes("gr", Lb)), nil
	}
	c, locC := mk("f", Lc, 2)
	out := Concat(a, b, c)
	vCover("concatenated")
	vAssert("length", len(out.Bytes()) == La+Lb+Lc)
	check := func(tag string, loc Location, off int) {
		f, n := vFindTagged(out.Features(), tag)
		vAssert("feature-kept", n == 1)
		if n != 1 {
			return
		}
		as, bs := vAtoms(loc), vAtoms(f.Loc)
		vAssert("same-shape", vSameKinds(as, bs))
		if vSameKinds(as, bs) {
			for k := range as {
				vAssert("offset-by-the-length-before-the-piece", vAnd(bs[k].s == as[k].s+off, bs[k].e == as[k].e+off))
				vAssert("strand-and-flags-kept", vAnd(bs[k].rev == as[k].rev, vAnd(bs[k].p5 == as[k].p5, bs[k].p3 == as[k].p3)))
			}
		}
	}
	if locB != nil {
		check("1", locB, La)
	}
	check("2", locC, La+Lb)
	vObserve("n", len(out.Features()))
}
