package gts

// C10 — Edits are invertible (location level): Expand(i,-n) undoes Shift(i,n) / Expand(i,n).

func vC10Loc(fam int, kinds int, embed bool) {
	L := vIntIn("L", 1, vCap)
	A := vGenFamily("A", fam, L, kinds)
	i := vIntIn("i", 0, vCap)
	n := vIntIn("n", 1, vCap)
	vAssume(i <= L)
	var B Location
	if embed {
		B = A.Expand(i, n)
	} else {
		B = A.Shift(i, n)
	}
	C := B.Expand(i, -n)
	as, cs := vAtoms(A), vAtoms(C)
	vCover("round-trip")
	x := vIntIn("x", 0, vCap)
	vAssume(x < L)
	vAssert("cov-fwd", vCovS(as, x, false) == vCovS(cs, x, false))
	vAssert("cov-rev", vCovS(as, x, true) == vCovS(cs, x, true))
	x2 := vIntIn("x2", 0, vCap)
	vAssume(vAnd(x2 < L, x2 != x))
	both := vAnd(vCov(as, x), vCov(as, x2))
	vAssert("order", vImplies(both, (vFirst(as, x) < vFirst(as, x2)) == (vFirst(cs, x) < vFirst(cs, x2))))
	if len(as) == len(cs) {
		vCover("same-arity")
		for k := range as {
			a, c := as[k], cs[k]
			if a.kind != vkBetween {
				// an original single part comes back as exactly that part (the split re-merges)
				vAssert("part-restored", vAnd(vAnd(a.s == c.s, a.e == c.e), a.kind == c.kind))
				vAssert("markers-restored", vAnd(a.p5 == c.p5, a.p3 == c.p3))
			}
			vAssert("strand-restored", a.rev == c.rev)
		}
	} else {
		vCover("arity-changed")
		a5, a3 := vMarkerCounts(as)
		c5, c3 := vMarkerCounts(cs)
		vAssert("marker-count", vAnd(c5 <= a5, c3 <= a3))
	}
	vObserve("nc", len(cs))
	vObserve("c0.s", cs[0].s)
	vObserve("c0.e", cs[0].e)
}

//verif:harness prop=C10 quick=6 thorough=11
//verif:bounds location level: A.Shift(i,n).Expand(i,-n), n>=1; quick shape families 0..5, thorough 0..10; coordinates, i, n, L symbolic in [0,2^40]
func VH_C10_insert_delete_loc() {
	n := vFamS1
	if vTier() == 1 {
		n = vFamS2
	}
	vC10Loc(vShard(n), 4, false)
}

//verif:harness prop=C10 quick=6 thorough=11
//verif:bounds location level: A.Expand(i,n).Expand(i,-n), n>=1; quick shape families 0..5, thorough 0..10; coordinates, i, n, L symbolic in [0,2^40]
func VH_C10_embed_delete_loc() {
	n := vFamS1
	if vTier() == 1 {
		n = vFamS2
	}
	vC10Loc(vShard(n), 4, true)
}
