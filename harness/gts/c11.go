package gts

// C11 — library operations are pure: arguments are never modified.

type vSnap struct {
	buf   []byte // copy of the whole backing buffer the caller owns
	keys  []string
	atoms [][]vAtom
	props []string
	n     int
}

func vPropsString(p Props) string {
	s := ""
	for _, kv := range p {
		for _, v := range kv {
			s += v + "\x00"
		}
		s += "\x01"
	}
	return s
}

func vSnapshot(buf []byte, ff FeatureSlice) vSnap {
	s := vSnap{buf: append([]byte{}, buf...), n: len(ff)}
	for _, f := range ff {
		s.keys = append(s.keys, f.Key)
		s.atoms = append(s.atoms, vAtoms(f.Loc))
		s.props = append(s.props, vPropsString(f.Props))
	}
	return s
}

func vSameSnap(label string, s vSnap, buf []byte, ff FeatureSlice) {
	ok := len(buf) == len(s.buf)
	for i := range s.buf {
		if i < len(buf) {
			ok = vAnd(ok, buf[i] == s.buf[i])
		}
	}
	vAssert(label+"-bytes-unchanged", ok)
	vAssert(label+"-table-length-unchanged", len(ff) == s.n)
	for i := 0; i < s.n && i < len(ff); i++ {
		vAssert(label+"-feature-unchanged", vAnd(ff[i].Key == s.keys[i], vAnd(vSameAtoms(vAtoms(ff[i].Loc), s.atoms[i]), vPropsString(ff[i].Props) == s.props[i])))
	}
	// the spare slots of the caller's table (the part of its backing array beyond len) stay untouched
	full := ff[:cap(ff)]
	for i := len(ff); i < len(full); i++ {
		vAssert(label+"-spare-slots-untouched", vAnd(full[i].Key == "", vAnd(full[i].Loc == nil, len(full[i].Props) == 0)))
	}
}

// vAliasBytes builds residues of length n inside a caller-owned buffer:
// shape 0: len==cap; 1: spare capacity 2 at the end; 2: sub-slice [1:1+n] of a buffer of n+3.
func vAliasBytes(name string, n int, shape int) (buf []byte, p []byte) {
	switch shape {
	case 0:
		buf = vBytes(name, n)
		return buf, buf
	case 1:
		buf = vBytes(name, n+2)
		return buf, buf[:n]
	default:
		buf = vBytes(name, n+3)
		return buf, buf[1 : 1+n]
	}
}

func vGenTable(name string, k int, L int, spare int) FeatureSlice {
	ff := make(FeatureSlice, k, k+spare)
	for i := 0; i < k; i++ {
		key := "gene"
		if i == 0 {
			key = "source"
		}
		var loc Location
		if vTier() == 0 {
			// quick: concrete coordinates (the aliasing shapes and residue bytes carry the quantifier)
			if i == 0 {
				loc = Range(0, L)
				if spare > 0 && L >= 4 {
					// a source written as a join with partial parts (e.g. after rotating a partial source across the origin)
					loc = Join(PartialRange(0, 2, Partial5), PartialRange(3, L, Partial3))
				}
			} else {
				loc = PartialRange(1, L-1, Partial3)
			}
			ff[i] = Feature{key, loc, vFeatTag(i)}
			continue
		}
		if i == 0 {
			loc = Range(0, L)
			if spare > 0 && L >= 4 {
				loc = Join(PartialRange(0, 2, Partial5), PartialRange(3, L, Partial3))
			}
		} else {
			switch vChoice(name+string(rune('0'+i))+".shape", 3) {
			case 0:
				loc = vGenAtom(name+string(rune('0'+i)), L, 1)
			case 1:
				loc = Join(Range(0, 1), PartialRange(L-1, L, Partial3))
			default:
				loc = vGenAtom(name+string(rune('0'+i)), L, 1).Complement()
			}
		}
		ff[i] = Feature{key, loc, vFeatTag(i)}
	}
	return ff
}

func vC11(op int, hostShape, guestShape, tableSpare int) {
	const L, G = 4, 2
	hbuf, hp := vAliasBytes("h", L, hostShape)
	gbuf, gp := vAliasBytes("g", G, guestShape)
	if op == 8 || op == 9 {
		// complement/transcribe look every residue up in a 26-letter table: keep the alphabet small
		for _, c := range hbuf {
			vAssume(vAnd('a' <= c, c <= 'd'))
		}
	}
	hff := vGenTable("hf", 2, L, tableSpare)
	gff := vGenTable("gf", 1, G, tableSpare)
	host := New("hinfo", hff, hp)
	guest := New("ginfo", gff, gp)
	hs, gs := vSnapshot(hbuf, hff), vSnapshot(gbuf, gff)
	i, n := 1, 2
	if vTier() == 1 {
		i = 2 * vChoice("i", 3)
		n = vChoice("n", 3)
	}
	var out Sequence
	switch op {
	case 0:
		out = Insert(host, i, guest)
	case 1:
		out = Embed(host, i, guest)
	case 2:
		vAssume(i+n <= L)
		out = Delete(host, i, n)
	case 3:
		vAssume(i+n <= L)
		out = Erase(host, i, n)
	case 4:
		out = Slice(host, i, vMin(L, i+n))
	case 5:
		out = Concat(host, guest)
	case 6:
		out = Reverse(host)
	case 7:
		out = Rotate(host, i-2)
	case 8:
		out = Complement(host)
	case 9:
		out = Transcribe(host)
	case 10:
		out = WithBytes(WithFeatures(WithInfo(host, "x"), gff), gp)
	case 11:
		var rep []Feature
		if vPanics(func() { rep = Repair(hff) }) {
			return // Repair panicking is C12's subject
		}
		out = WithFeatures(host, rep)
	case 12:
		out = WithFeatures(host, hff.Filter(Overlap(i, L)))
	case 14:
		out = Slice(host, 0, L) // the whole sequence: every Expand is by zero
	case 15:
		// sorted insertion of a feature that sorts after everything in the table (features mostly arrive in order)
		out = WithFeatures(host, hff.Insert(Feature{"zz", Range(L-1, L), vFeatTag(7)}))
	default:
		out = WithFeatures(host, hff.Insert(gff[0]))
	}
	vCover("operated")
	vSameSnap("host", hs, hbuf, hff)
	vSameSnap("guest", gs, gbuf, gff)
	vAssert("host-accessors", vAnd(len(host.Bytes()) == L, len(host.Features()) == 2))
	// the same arguments can be fed to a further operation with the same result as on fresh arguments
	obuf := append([]byte{}, out.Bytes()...)
	os := vSnapshot(obuf, out.Features())
	second := vChoice("second", 3)
	if op == 15 {
		second = 3
	}
	switch second {
	case 3:
		// a second insertion into the same table must not disturb the first result
		_ = hff.Insert(Feature{"zy", Point(L - 1), vFeatTag(8)})
	case 0:
		_ = Insert(host, i, guest)
	case 1:
		if i+n <= L {
			_ = Delete(host, i, n)
		}
	default:
		_ = Concat(host, guest)
	}
	vSameSnap("host2", hs, hbuf, hff)
	vSameSnap("guest2", gs, gbuf, gff)
	vSameSnap("result", os, out.Bytes(), out.Features())
	vObserve("outlen", len(out.Bytes()))
}

//verif:harness prop=C11 quick=16 thorough=16 timeout=1200
//verif:bounds each of 16 operations (insert embed delete erase slice concat reverse rotate complement transcribe with-* repair filter sorted-insert full-slice sorted-insert-at-the-end twice); the spare slots of the caller's feature table are part of what must not change;; with spare table capacity the source feature is a join with partial parts on a 4-residue host / 2-residue guest with symbolic bytes; aliasing shapes by choice: residues len==cap | spare capacity | sub-slice of a larger buffer (host and guest independently), feature tables with 0 or 2 spare slots; quick: concrete coordinates, index 1, length 2; thorough: all 18 aliasing combinations, second feature = symbolic range | join | complement of symbolic range, index in {0,2,4}, length in {0,1,2}; each followed by a second operation on the same arguments
func VH_C11_purity() {
	op := vShard(16)
	hostShape := vChoice("hshape", 3)
	guestShape := 0
	spare := 0
	if vTier() == 1 {
		guestShape = vChoice("gshape", 3)
		spare = 2 * vChoice("spare", 2)
	} else {
		// quick: guest shape and table spare follow the host shape (0,0,0) (1,1,2) (2,2,2)
		guestShape = hostShape
		if hostShape > 0 {
			spare = 2
		}
	}
	vC11(op, hostShape, guestShape, spare)
}
