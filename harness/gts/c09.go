package gts

// C09 — Minimize and Invert partition the sequence exactly.

func vCovSegs(ss []vSeg, x int) bool {
	c := false
	for _, s := range ss {
		c = vOr(c, vAnd(s.lo <= x, x < s.hi))
	}
	return c
}

func vMultSegs(ss []vSeg, x int) int {
	n := 0
	for _, s := range ss {
		n += vIte(vAnd(s.lo <= x, x < s.hi), 1, 0)
	}
	return n
}

// shapes: list of per-region segment counts
func vC09(shape []int, complMask int) {
	n := vIntIn("n", 1, vCap)
	var in Regions
	for ri, k := range shape {
		name := "R" + string(rune('0'+ri))
		var r Region
		if k == 1 {
			h := vIntIn(name+".h0", 0, vCap)
			l := vIntIn(name+".l0", 1, vCap)
			vAssume(h+l <= n)
			r = Segment{h, h + l}
		} else {
			rr := make(Regions, k)
			for j := 0; j < k; j++ {
				h := vIntIn(name+".h"+string(rune('0'+j)), 0, vCap)
				l := vIntIn(name+".l"+string(rune('0'+j)), 1, vCap)
				vAssume(h+l <= n)
				rr[j] = Segment{h, h + l}
			}
			r = rr
		}
		if complMask&(1<<uint(ri)) != 0 {
			// complemented by hand (not through the code under test)
			switch v := r.(type) {
			case Segment:
				r = Segment{v[1], v[0]}
			case Regions:
				rr := make(Regions, len(v))
				for j := range v {
					sg := v[len(v)-1-j].(Segment)
					rr[j] = Segment{sg[1], sg[0]}
				}
				r = rr
			}
		}
		in = append(in, r)
	}
	is := vSegs(in)
	min := Minimize(in)
	vCover("minimized")
	var ms []vSeg
	for _, s := range min {
		ms = append(ms, vSeg{s[0], s[1], false})
		vAssert("forward-nonempty", s[0] < s[1])
	}
	for j := 0; j+1 < len(min); j++ {
		vAssert("increasing-nonabutting", min[j][1] < min[j+1][0])
	}
	x := vIntIn("x", 0, vCap)
	vAssume(x < n)
	vAssert("min-cov", vCovSegs(ms, x) == vCovSegs(is, x))
	// the argument is not modified
	is2 := vSegs(in)
	for j := range is {
		vAssert("arg-unchanged", vAnd(is[j].lo == is2[j].lo, is[j].hi == is2[j].hi))
	}
	// linear inversion
	inv := InvertLinear(in, n)
	var vs []vSeg
	for _, r := range inv {
		s := r.(Segment)
		vs = append(vs, vSeg{s[0], s[1], false})
		vAssert("inv-nonempty", s[0] < s[1])
		vAssert("inv-in-range", vAnd(0 <= s[0], s[1] <= n))
	}
	vAssert("partition", vMultSegs(ms, x)+vMultSegs(vs, x) == 1)
	// circular inversion
	var cinv []Region
	if vPanics(func() { cinv = InvertCircular(in, n) }) {
		vAssert("circular-no-panic", false)
		return
	}
	var cs []vSeg
	for _, r := range cinv {
		cs = append(cs, vSegs(r)...)
	}
	vAssert("circular-cov", vMultSegs(cs, x) == vMultSegs(vs, x))
	endsFree := vAnd(!vCovSegs(ms, 0), !vCovSegs(ms, n-1))
	if len(cinv) < len(inv) {
		vCover("circular-merged")
		vAssert("merge-only-if-ends-free", endsFree)
		vAssert("merged-count", len(cinv) == len(inv)-1)
		// the merged piece reads across the origin: tail piece first, then head piece
		first := vSegs(cinv[0])
		vAssert("merged-reads-across-origin", vAnd(len(first) == 2, vAnd(first[0].hi == n, first[1].lo == 0)))
	} else {
		vCover("circular-unmerged")
		vAssert("unmerged-only-if-end-covered", vOr(!endsFree, len(inv) < 2))
	}
	vObserve("nmin", len(min))
	vObserve("ninv", len(inv))
	vObserve("m0", min[0][0])
}

//verif:harness prop=C09 quick=5 thorough=12 timeout=1800
//verif:bounds Minimize/InvertLinear/InvertCircular over region collections with at most 3 (quick) / 5 (thorough) segments in 1..3 regions, each region forward or complemented; n, heads and lengths symbolic in [0,2^40]; sort.Sort is the real pdqsort/insertionSort source
func VH_C09_minimize_invert() {
	n := 5
	if vTier() == 1 {
		n = 12
	}
	switch vShard(n) {
	case 0:
		vC09([]int{1}, 0)
	case 1:
		vC09([]int{1, 1}, 2)
	case 2:
		vC09([]int{2}, 1)
	case 3:
		vC09([]int{1, 2}, 1)
	case 4:
		vC09([]int{1, 1, 1}, 0)
	case 5:
		vC09([]int{2, 1}, 2)
	case 6:
		vC09([]int{3}, 1)
	case 7:
		vC09([]int{2, 2}, 1)
	case 8:
		vC09([]int{1, 1, 1, 1}, 5)
	case 9:
		vC09([]int{4}, 0)
	case 10:
		vC09([]int{2, 1, 1}, 4)
	default:
		vC09([]int{3, 2}, 2)
	}
}
