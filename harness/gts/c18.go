package gts

// C18 — Alphabet operations follow IUPAC semantics.

// vBaseSet: bit mask of the bases an IUPAC letter denotes (A=1,C=2,G=4,T/U=8); 0 for non-letters.
func vBaseSet(c byte) int {
	letters := "ACGTURYKMSWBDHVN"
	sets := [16]int{1, 2, 4, 8, 8, 5, 10, 12, 3, 6, 9, 14, 13, 11, 7, 15}
	m := 0
	for k := 0; k < 16; k++ {
		u := letters[k]
		m = vIte(vOr(c == u, c == u+32), sets[k], m)
	}
	return m
}

// vSwapSet: complementary base set (A<->T, C<->G).
func vSwapSet(m int) int {
	res := 0
	for k := 0; k < 16; k++ {
		s := ((k & 1) << 3) | ((k & 8) >> 3) | ((k & 2) << 1) | ((k & 4) >> 1)
		res = vIte(m == k, s, res)
	}
	return res
}

func vIsLower(c byte) bool { return vAnd('a' <= c, c <= 'z') }

//verif:harness prop=C18 quick=1 thorough=1 nomerge=1
//verif:bounds Complement/Transcribe on a one-residue sequence whose byte is symbolic (all 256 values in one query per path)
func VH_C18_complement_table() {
	c := vByte("c")
	seq := New(nil, nil, []byte{c})
	out := Complement(seq).Bytes()
	vCover("complemented")
	vAssert("length-kept", len(out) == 1)
	d := out[0]
	set := vBaseSet(c)
	vAssert("letters-complement-set", vImplies(set != 0, vBaseSet(d) == vSwapSet(set)))
	vAssert("non-letters-unchanged", vImplies(set == 0, d == c))
	vAssert("case-kept", vImplies(set != 0, vIsLower(d) == vIsLower(c)))
	// involution up to U -> A -> T
	e := Complement(New(nil, nil, []byte{d})).Bytes()[0]
	isU := vOr(c == 'U', c == 'u')
	vAssert("involution", vImplies(!isU, e == c))
	vAssert("involution-U", vImplies(isU, vAnd(vBaseSet(e) == 8, vIsLower(e) == vIsLower(c))))
	// transcribe differs only in writing U for the complement of A
	t := Transcribe(seq).Bytes()[0]
	isA := vOr(c == 'A', c == 'a')
	vAssert("transcribe-same", vImplies(!isA, t == d))
	vAssert("transcribe-A", vImplies(isA, vAnd(vOr(t == 'U', t == 'u'), vIsLower(t) == vIsLower(c))))
	vAssert("arg-unchanged", seq.Bytes()[0] == c)
	// the operations keep no state between calls: the same call after the others gives the same letter
	vAssert("complement-same-after-transcribe", Complement(seq).Bytes()[0] == d)
	vAssert("transcribe-same-after-complement", Transcribe(seq).Bytes()[0] == t)
	vObserve("d", int(d))
	vObserve("t", int(t))
}

//verif:harness prop=C18 quick=1 thorough=1
//verif:bounds Complement/Transcribe preserve length and act bytewise for sequences of 0..3 (quick) / 0..5 (thorough) symbolic bytes
func VH_C18_complement_len() {
	max := 3
	if vTier() == 1 {
		max = 5
	}
	n := vChoice("n", max+1)
	p := vBytes("p", n)
	q := Complement(New(nil, nil, p)).Bytes()
	r := Transcribe(New(nil, nil, p)).Bytes()
	vCover("lengths")
	vAssert("length-kept", vAnd(len(q) == n, len(r) == n))
	for k := 0; k < n && k < len(q); k++ {
		// bytewise: position k depends only on p[k]
		one := Complement(New(nil, nil, []byte{p[k]})).Bytes()[0]
		vAssert("bytewise", q[k] == one)
	}
	vObserve("n", n)
}

// ---- (b) Match, (c) Search -------------------------------------------------------------

func vLower(c byte) byte { return byte(vIte(vAnd('A' <= c, c <= 'Z'), int(c)+32, int(c))) }

// vMatches: sequence byte s is matched by query byte q under IUPAC semantics (both letters: the
// sequence letter's base set is contained in the query letter's); a non-alphabet query byte
// matches only itself (case-insensitively, as the sequence and query are lower-cased).
func vMatches(q, s byte) bool {
	qs, ss := vBaseSet(q), vBaseSet(s)
	// base-set inclusion on 4-bit masks
	sub := true
	for k := 0; k < 16; k++ {
		for j := 0; j < 16; j++ {
			if j&^k != 0 {
				sub = vAnd(sub, !vAnd(qs == k, ss == j))
			}
		}
	}
	letters := vAnd(qs != 0, vAnd(ss != 0, sub))
	literal := vAnd(qs == 0, vLower(q) == vLower(s))
	return vOr(letters, literal)
}

//verif:harness prop=C18 quick=3 thorough=6 merge=concrete timeout=1500
//verif:bounds Match: query of 1 (quick) / 1..2 (thorough) symbolic bytes (all 256 values), sequence of 1..3 symbolic bytes over the IUPAC alphabet (either case) or equal to a non-letter query byte: every reported segment is a match of the query width, segments ascend without overlap, and every match position overlaps a reported segment
//verif:assume regexp: fixed-width class model of the pattern Match builds (real regexp/syntax is not interpreted); a query byte that reaches the pattern unescaped and is a metacharacter other than `(` is cut
func VH_C18_match() {
	sh := vShard(3 + 3*vTier())
	qn := 1 + sh/3
	sn := 1 + sh%3
	q := vBytes("q", qn)
	s := vBytes("s", sn)
	for _, c := range s {
		// IUPAC letters, or a copy of the first query byte (so that a literal query can occur);
		// what a letter query does with a non-letter sequence byte is not stated by C18
		vAssume(vOr(vBaseSet(c) != 0, vAnd(vBaseSet(q[0]) == 0, vLower(c) == vLower(q[0]))))
	}
	for j := range q {
		for k := j; k < sn && k-j+qn <= sn; k++ {
			// a letter query byte aligned with a non-letter sequence byte: not stated by C18 either
			vAssume(vImplies(vBaseSet(q[j]) != 0, vBaseSet(s[k]) != 0))
		}
	}
	for _, c := range q {
		vAssume(vAnd(c != '\n', c < 128)) // `.` does not match a newline; non-ASCII bytes are cut by ToLower anyway
	}
	var segs []Segment
	p := vPanics(func() { segs = Match(New(nil, nil, s), New(nil, nil, q)) })
	vAssert("match-never-panics", !p)
	if p {
		return
	}
	vCover("matched")
	at := func(i int) bool { // the query matches at position i
		ok := true
		for j := 0; j < qn; j++ {
			ok = vAnd(ok, vMatches(q[j], s[i+j]))
		}
		return ok
	}
	last := 0
	for _, sg := range segs {
		i := sg[0]
		vAssert("segment-width", sg[1] == i+qn)
		vAssert("segments-ascend-without-overlap", i >= last)
		vAssert("segment-is-a-match", at(i))
		last = sg[1]
	}
	for i := 0; i+qn <= sn; i++ {
		covered := false
		for _, sg := range segs {
			covered = vOr(covered, vAnd(sg[0] < i+qn, i < sg[1]))
		}
		vAssert("every-match-is-reported-or-overlaps-one", vImplies(at(i), covered))
	}
	vObserve("n", len(segs))
}

//verif:harness prop=C18 quick=6 thorough=10 merge=concrete timeout=1500
//verif:bounds Search: (sequence,query) lengths (2,1) (3,2) (4,2), the concrete sequence ff 61 ff 41 with a one-letter query, a query as long as the sequence (2,2) and longer than it (1,2) (quick), plus (4,1) (5,2) (5,3) (3,3) thorough, symbolic bytes over {a,A,c,C,0xff}: the result is the ascending list of all (overlapping) case-insensitive occurrences
//verif:assume index/suffixarray: Lookup returns all occurrence offsets in an unspecified order (modelled: descending)
func VH_C18_search() {
	sh := vShard(6 + 4*vTier())
	pick := [][2]int{{2, 1}, {3, 2}, {4, 2}, {4, 1}, {2, 2}, {1, 2}, {4, 1}, {5, 2}, {5, 3}, {3, 3}}[sh]
	sn, qn := pick[0], pick[1]
	alpha := func(name string, n int) []byte {
		p := make([]byte, n)
		for i := range p {
			// 0xff: a byte that is not valid UTF-8 (offsets are byte offsets whatever the bytes are)
			p[i] = "aAcC\xff"[vIntIn(name+string(rune('0'+i)), 0, 4)]
		}
		return p
	}
	s, q := alpha("s", sn), alpha("q", qn)
	if sh == 3 {
		s = []byte("\xffa\xffA") // concrete non-UTF-8 residues around the occurrences
		q = []byte{"aA"[vIntIn("q0", 0, 1)]}
	}
	segs := Search(New(nil, nil, s), New(nil, nil, q))
	vCover("searched")
	occ := func(i int) bool {
		ok := true
		for j := 0; j < qn; j++ {
			ok = vAnd(ok, vLower(s[i+j]) == vLower(q[j]))
		}
		return ok
	}
	total := 0
	for i := 0; i+qn <= sn; i++ {
		total += vIte(occ(i), 1, 0)
	}
	vAssert("all-occurrences-and-only-those", len(segs) == total)
	prev := -1
	for _, sg := range segs {
		vAssert("ascending", sg[0] > prev)
		vAssert("occurrence-width", sg[1] == sg[0]+qn)
		sel := false
		for i := 0; i+qn <= sn; i++ {
			sel = vOr(sel, vAnd(sg[0] == i, occ(i)))
		}
		vAssert("is-an-occurrence", sel)
		prev = sg[0]
	}
	vAssert("arguments-unchanged", vAnd(len(s) == sn, len(q) == qn))
	vObserve("n", len(segs))
}
