package gts

// C18 — Alphabet operations follow IUPAC semantics.

// vBaseSet: bit mask of the bases an IUPAC letter denotes (A=1,C=2,G=4,T/U=8); 0 for non-letters.
func vBaseSet(c byte) int {
	letters := "ACGTURYKMSWBDHVN"
	sets := [16]int{1, 2, 4, 8, 8, 5, 10, 12, 3, 6, 9, 14, 13, 11, 7, 15}
	m := 0
	for k := 0; k < 16; k++ {
		u := letters[k]
		m = vIte(vOr(c == u, c == u+32), sets[k], m)
	}
	return m
}

// vSwapSet: complementary base set (A<->T, C<->G).
func vSwapSet(m int) int {
	res := 0
	for k := 0; k < 16; k++ {
		s := ((k & 1) << 3) | ((k & 8) >> 3) | ((k & 2) << 1) | ((k & 4) >> 1)
		res = vIte(m == k, s, res)
	}
	return res
}

func vIsLower(c byte) bool { return vAnd('a' <= c, c <= 'z') }

//verif:harness prop=C18 quick=1 thorough=1 nomerge=1
//verif:bounds Complement/Transcribe on a one-residue sequence whose byte is symbolic (all 256 values in one query per path)
func VH_C18_complement_table() {
	c := vByte("c")
	seq := New(nil, nil, []byte{c})
	out := Complement(seq).Bytes()
	vCover("complemented")
	vAssert("length-kept", len(out) == 1)
	d := out[0]
	set := vBaseSet(c)
	vAssert("letters-complement-set", vImplies(set != 0, vBaseSet(d) == vSwapSet(set)))
	vAssert("non-letters-unchanged", vImplies(set == 0, d == c))
	vAssert("case-kept", vImplies(set != 0, vIsLower(d) == vIsLower(c)))
	// involution up to U -> A -> T
	e := Complement(New(nil, nil, []byte{d})).Bytes()[0]
	isU := vOr(c == 'U', c == 'u')
	vAssert("involution", vImplies(!isU, e == c))
	vAssert("involution-U", vImplies(isU, vAnd(vBaseSet(e) == 8, vIsLower(e) == vIsLower(c))))
	// transcribe differs only in writing U for the complement of A
	t := Transcribe(seq).Bytes()[0]
	isA := vOr(c == 'A', c == 'a')
	vAssert("transcribe-same", vImplies(!isA, t == d))
	vAssert("transcribe-A", vImplies(isA, vAnd(vOr(t == 'U', t == 'u'), vIsLower(t) == vIsLower(c))))
	vAssert("arg-unchanged", seq.Bytes()[0] == c)
	vObserve("d", int(d))
	vObserve("t", int(t))
}

//verif:harness prop=C18 quick=1 thorough=1
//verif:bounds Complement/Transcribe preserve length and act bytewise for sequences of 0..3 (quick) / 0..5 (thorough) symbolic bytes
func VH_C18_complement_len() {
	max := 3
	if vTier() == 1 {
		max = 5
	}
	n := vChoice("n", max+1)
	p := vBytes("p", n)
	q := Complement(New(nil, nil, p)).Bytes()
	r := Transcribe(New(nil, nil, p)).Bytes()
	vCover("lengths")
	vAssert("length-kept", vAnd(len(q) == n, len(r) == n))
	for k := 0; k < n && k < len(q); k++ {
		// bytewise: position k depends only on p[k]
		one := Complement(New(nil, nil, []byte{p[k]})).Bytes()[0]
		vAssert("bytewise", q[k] == one)
	}
	vObserve("n", n)
}
