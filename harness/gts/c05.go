package gts

// C05 — Reverse and Complement mirror coordinates.

func vC05Family(fam int, kinds int) {
	L := vIntIn("L", 1, vCap)
	A := vGenFamily("A", fam, L, kinds)
	var B Location
	if vPanics(func() { B = A.Reverse(L) }) {
		vAssert("reverse-no-panic", false)
		return
	}
	var as, bs []vAtom
	as = vAtoms(A)
	if vPanics(func() { bs = vAtoms(B) }) {
		vAssert("reverse-result-wellformed", false) // nil element in the result
		return
	}
	vCover("reversed")
	vAssert("in-range", vInRange(bs, L))
	x := vIntIn("x", 0, vCap)
	vAssume(x < L)
	vAssert("cov-fwd", vCovS(as, x, false) == vCovS(bs, L-1-x, false))
	vAssert("cov-rev", vCovS(as, x, true) == vCovS(bs, L-1-x, true))
	n := len(as)
	if len(bs) == n {
		vCover("same-arity")
		for i := 0; i < n; i++ {
			a, b := as[n-1-i], bs[i]
			if a.kind == vkBetween {
				// gap g maps to gap L-g
				vAssert("gap-mirror", vAnd(b.s == L-a.s, b.e == L-a.e))
			} else {
				vAssert("part-mirror", vAnd(b.s == L-a.e, b.e == L-a.s))
			}
			vAssert("part-kind", b.kind == a.kind)
			vAssert("markers-swap", vAnd(b.p5 == a.p3, b.p3 == a.p5))
			vAssert("strand-kept", b.rev == a.rev)
		}
	} else {
		vCover("reduced")
		dis := vDisjoint(as)
		vAssert("no-part-lost", vImplies(dis, vLenA(bs) == vLenA(as)))
		t := vIntIn("t", 0, 8*vCap)
		vAssume(t < vLenA(as))
		pa, ra := vRes(as, vLenA(as)-1-t)
		pb, rb := vRes(bs, t)
		vAssert("order-mirror", vImplies(dis, vAnd(pb == L-1-pa, ra == rb)))
	}
	// involution
	var C Location
	if vPanics(func() { C = B.Reverse(L) }) {
		vAssert("reverse-twice-no-panic", false)
		return
	}
	cs := vAtoms(C)
	vAssert("involution-cov-fwd", vCovS(as, x, false) == vCovS(cs, x, false))
	vAssert("involution-cov-rev", vCovS(as, x, true) == vCovS(cs, x, true))
	if len(cs) == n {
		for i := 0; i < n; i++ {
			vAssert("involution-atom", vAnd(vAnd(cs[i].s == as[i].s, cs[i].e == as[i].e), vAnd(cs[i].p5 == as[i].p5, cs[i].p3 == as[i].p3)))
		}
	}
	// complement is an involution on locations
	D := A.Complement().Complement()
	ds := vAtoms(D)
	vAssert("complement-involution", len(ds) == n)
	for i := 0; i < n && i < len(ds); i++ {
		vAssert("complement-involution-atom", vAnd(vAnd(ds[i].s == as[i].s, ds[i].e == as[i].e), ds[i].rev == as[i].rev))
	}
	vObserve("n", n)
	vObserve("nb", len(bs))
	if n > 0 {
		vObserve("b0.s", bs[0].s)
		vObserve("b0.e", bs[0].e)
	}
}

//verif:harness prop=C05 quick=6 thorough=16 timeout=1500
//verif:bounds quick: shape families 0..5 (atoms, join/order of 2 atoms, complement of those); thorough: families 0..15 (up to 5 parts, depth 2; the 5-part order without ambiguous spans, the 5-part join with ranged and point parts only); all coordinates and L symbolic in [0,2^40]
func VH_C05_reverse_loc() {
	n := vFamS1
	if vTier() == 1 {
		n = vFamS3
	}
	fam := vShard(n)
	kinds := 4
	switch fam {
	case 12:
		kinds = 2 // join of 5: the reduction forks per adjacent pair; all four kinds exceed the time budget
	case 13:
		kinds = 3
	}
	vC05Family(fam, kinds)
}

// ---- API level: reverse-complement preserves the extracted sequence ---------------------

func vACGT(name string, n int) []byte {
	p := make([]byte, n)
	for i := range p {
		p[i] = "acgt"[vIntIn(name+string(rune('0'+i)), 0, 3)]
	}
	return p
}

func vRevCompByte(c byte) byte {
	// reference complement on the 4-letter alphabet
	return byte(vIte(c == 'a', 't', vIte(c == 't', 'a', vIte(c == 'c', 'g', 'c'))))
}

//verif:harness prop=C05 quick=6 thorough=10 timeout=1200
//verif:bounds API level: sequence of 6 symbolic residues over {a,c,g,t}; one feature: range (symbolic coordinates, quick) or join/order of 2, 3 (odd arity), 4 fixed parts, plain or complemented; gts.Reverse, gts.Complement, Region(), Regions.Complement, Locate: the sequence extracted for the feature from the reverse-complemented record equals the one extracted from the original record; Reverse/Complement are involutions on residues
func VH_C05_extraction_law() {
	const L = 6
	data := vACGT("r", L)
	var loc Location
	sh := vShard(6 + 4*vTier())
	switch sh % 5 {
	case 0:
		s := vIntIn("s", 0, L-1)
		e := vIntIn("e", 1, L)
		vAssume(s < e)
		loc = Range(s, e)
	case 1:
		loc = Join(Range(0, 2), Range(3, 5))
	case 2:
		loc = Join(Range(0, 1), Range(2, 4), Range(5, 6))
	case 3:
		loc = Order(Range(0, 1), Range(2, 3), Range(4, 6))
	default:
		loc = Join(Range(0, 1), Range(2, 3), Range(4, 5), Point(5))
	}
	if sh >= 5 || vChoice("compl", 2) == 1 {
		loc = loc.Complement()
	}
	seq := New(nil, []Feature{{"gene", loc, Props{}}}, data)
	want := loc.Region().Locate(seq).Bytes()
	rc := Reverse(Complement(seq))
	vCover("reverse-complemented")
	// residues: reverse complement, and an involution
	for i := 0; i < L; i++ {
		vAssert("rc-residues", rc.Bytes()[i] == vRevCompByte(data[L-1-i]))
	}
	back := Reverse(Complement(rc))
	for i := 0; i < L; i++ {
		vAssert("rc-involution", back.Bytes()[i] == data[i])
	}
	f2 := rc.Features()[0]
	got := f2.Loc.Region().Locate(rc).Bytes()
	vAssert("extracted-length", len(got) == len(want))
	if len(got) == len(want) {
		for i := range got {
			vAssert("extracted-sequence-preserved", got[i] == want[i])
		}
	}
	// Region.Complement reads the reverse complement of what the region reads
	rcomp := loc.Region().Complement().Locate(seq).Bytes()
	vAssert("region-complement-length", len(rcomp) == len(want))
	if len(rcomp) == len(want) {
		for i := range rcomp {
			vAssert("region-complement", rcomp[i] == vRevCompByte(want[len(want)-1-i]))
		}
	}
	vObserve("n", len(got))
}

//verif:harness prop=C05 quick=5 thorough=10 merge=concrete timeout=1500
//verif:bounds API level: gts.Reverse and gts.Complement on a sequence of 5 (quick) / 6 (thorough) concrete residues with a full-length source and one feature with symbolic coordinates and flags: atom of every kind (range, point, between, ambiguous) | 2-part join of ranges in any order (so also parts whose lengths add up to the sequence length, origin-spanning) | complemented range | 2-part order | full-length partial range: Reverse mirrors coverage per strand and swaps the markers, Complement flips the strand of every part and nothing else, both are involutions on the location
func VH_C05_mirror_api() {
	sh := vShard(5 + 5*vTier())
	L := 5 + sh/5
	data := []byte("acgtna")[:L]
	var loc Location
	switch sh % 5 {
	case 0:
		loc = vGenAtom("f", L, 4)
	case 1:
		loc = Join(vGenParts("f", 2, L, 1)...)
	case 2:
		loc = vGenAtom("f", L, 1).Complement()
	case 3:
		loc = Order(vGenParts("f", 2, L, 2)...)
	default:
		loc = PartialRange(0, L, Partial{vBool("f.p5"), vBool("f.p3")})
	}
	ff := FeatureSlice{}
	ff = ff.Insert(Feature{"source", Range(0, L), vFeatTag(0)})
	ff = ff.Insert(Feature{"gene", loc, vFeatTag(1)})
	seq := New(nil, ff, data)
	as := vAtoms(loc)
	find := func(s Sequence) ([]vAtom, Location, bool) {
		f, n := vFindTagged(s.Features(), "1")
		if n != 1 {
			return nil, nil, false
		}
		return vAtoms(f.Loc), f.Loc, true
	}
	x := vIntIn("x", 0, L)
	vAssume(x < L)
	// Reverse
	rv := Reverse(seq)
	vCover("reversed")
	rs, rloc, ok := find(rv)
	vAssert("feature-present-once", ok)
	if ok {
		vAssert("in-range", vInRange(rs, L))
		vAssert("mirror-fwd", vCovS(as, x, false) == vCovS(rs, L-1-x, false))
		vAssert("mirror-rev", vCovS(as, x, true) == vCovS(rs, L-1-x, true))
		a5, a3 := vMarkerCounts(as)
		r5, r3 := vMarkerCounts(rs)
		if vSameKindsMirrored(as, rs) {
			// no part was merged or absorbed: part k mirrors part n-1-k, markers swap ends
			for k := range as {
				m := rs[len(rs)-1-k]
				if as[k].kind == vkRanged {
					vAssert("markers-swap", vAnd(m.p5 == as[k].p3, m.p3 == as[k].p5))
				}
			}
		} else {
			vAssert("markers-not-invented", vAnd(r5 <= a3, r3 <= a5))
		}
		back, _, ok2 := find(Reverse(rv))
		vAssert("reverse-involution", vAnd(ok2, vSameAtoms(back, as)))
		_ = rloc
	}
	// Complement
	cp := Complement(seq)
	cs, _, okc := find(cp)
	vAssert("feature-present-once", okc)
	if okc {
		vAssert("complement-flips-strand-fwd", vCovS(as, x, false) == vCovS(cs, x, true))
		vAssert("complement-flips-strand-rev", vCovS(as, x, true) == vCovS(cs, x, false))
		if len(cs) == len(as) {
			for k := range as {
				m := cs[len(cs)-1-k]
				vAssert("complement-keeps-part", vAnd(vAnd(m.s == as[k].s, m.e == as[k].e), vAnd(m.kind == as[k].kind, m.rev != as[k].rev)))
			}
		} else {
			vAssert("complement-keeps-arity", false)
		}
		back, _, ok2 := find(Complement(cp))
		vAssert("complement-involution", vAnd(ok2, vSameAtoms(back, as)))
	}
	vObserve("n", len(rs))
}

// vSameKindsMirrored: b has the kinds of a in mirrored order.
func vSameKindsMirrored(a, b []vAtom) bool {
	if len(a) != len(b) {
		return false
	}
	for k := range a {
		if a[k].kind != b[len(b)-1-k].kind {
			return false
		}
	}
	return true
}
