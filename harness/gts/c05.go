package gts

// C05 — Reverse and Complement mirror coordinates.

func vC05Family(fam int, kinds int) {
	L := vIntIn("L", 1, vCap)
	A := vGenFamily("A", fam, L, kinds)
	var B Location
	if vPanics(func() { B = A.Reverse(L) }) {
		vAssert("reverse-no-panic", false)
		return
	}
	var as, bs []vAtom
	as = vAtoms(A)
	if vPanics(func() { bs = vAtoms(B) }) {
		vAssert("reverse-result-wellformed", false) // nil element in the result
		return
	}
	vCover("reversed")
	vAssert("in-range", vInRange(bs, L))
	x := vIntIn("x", 0, vCap)
	vAssume(x < L)
	vAssert("cov-fwd", vCovS(as, x, false) == vCovS(bs, L-1-x, false))
	vAssert("cov-rev", vCovS(as, x, true) == vCovS(bs, L-1-x, true))
	n := len(as)
	if len(bs) == n {
		vCover("same-arity")
		for i := 0; i < n; i++ {
			a, b := as[n-1-i], bs[i]
			if a.kind == vkBetween {
				// gap g maps to gap L-g
				vAssert("gap-mirror", vAnd(b.s == L-a.s, b.e == L-a.e))
			} else {
				vAssert("part-mirror", vAnd(b.s == L-a.e, b.e == L-a.s))
			}
			vAssert("part-kind", b.kind == a.kind)
			vAssert("markers-swap", vAnd(b.p5 == a.p3, b.p3 == a.p5))
			vAssert("strand-kept", b.rev == a.rev)
		}
	} else {
		vCover("reduced")
		dis := vDisjoint(as)
		vAssert("no-part-lost", vImplies(dis, vLenA(bs) == vLenA(as)))
		t := vIntIn("t", 0, 8*vCap)
		vAssume(t < vLenA(as))
		pa, ra := vRes(as, vLenA(as)-1-t)
		pb, rb := vRes(bs, t)
		vAssert("order-mirror", vImplies(dis, vAnd(pb == L-1-pa, ra == rb)))
	}
	// involution
	var C Location
	if vPanics(func() { C = B.Reverse(L) }) {
		vAssert("reverse-twice-no-panic", false)
		return
	}
	cs := vAtoms(C)
	vAssert("involution-cov-fwd", vCovS(as, x, false) == vCovS(cs, x, false))
	vAssert("involution-cov-rev", vCovS(as, x, true) == vCovS(cs, x, true))
	if len(cs) == n {
		for i := 0; i < n; i++ {
			vAssert("involution-atom", vAnd(vAnd(cs[i].s == as[i].s, cs[i].e == as[i].e), vAnd(cs[i].p5 == as[i].p5, cs[i].p3 == as[i].p3)))
		}
	}
	// complement is an involution on locations
	D := A.Complement().Complement()
	ds := vAtoms(D)
	vAssert("complement-involution", len(ds) == n)
	for i := 0; i < n && i < len(ds); i++ {
		vAssert("complement-involution-atom", vAnd(vAnd(ds[i].s == as[i].s, ds[i].e == as[i].e), ds[i].rev == as[i].rev))
	}
	vObserve("n", n)
	vObserve("nb", len(bs))
	if n > 0 {
		vObserve("b0.s", bs[0].s)
		vObserve("b0.e", bs[0].e)
	}
}

//verif:harness prop=C05 quick=6 thorough=16
//verif:bounds quick: shape families 0..5 (atoms, join/order of 2 atoms, complement of those); thorough: families 0..15 (up to 5 parts, depth 2); all coordinates and L symbolic in [0,2^40]
func VH_C05_reverse_loc() {
	n := vFamS1
	if vTier() == 1 {
		n = vFamS3
	}
	vC05Family(vShard(n), 4)
}
