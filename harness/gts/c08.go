package gts

// C08 — Resizing a region equals slicing its spliced sequence.

type vSeg struct {
	lo, hi int
	rev    bool
}

// vSegs flattens a Region value returned by the real code into segments in reading order.
func vSegs(r Region) []vSeg {
	switch v := r.(type) {
	case Segment:
		return []vSeg{{vMin(v[0], v[1]), vMax(v[0], v[1]), v[1] < v[0]}}
	case Regions:
		var out []vSeg
		for _, x := range v {
			out = append(out, vSegs(x)...)
		}
		return out
	}
	panic("vSegs: unknown region kind")
}

func vSegsLen(ss []vSeg) int {
	n := 0
	for _, s := range ss {
		n += s.hi - s.lo
	}
	return n
}

// vPos: coordinate and strand of the t-th base of the spliced region; the first
// segment extends outward for t<0 and the last for t>=Len.
func vPos(ss []vSeg, t int) (int, bool) {
	pos, rev := 0, false
	off := 0
	for k, s := range ss {
		n := s.hi - s.lo
		in := true
		if k > 0 {
			in = vAnd(in, off <= t)
		}
		if k < len(ss)-1 {
			in = vAnd(in, t < off+n)
		}
		p := vIte(s.rev, s.hi-1-(t-off), s.lo+(t-off))
		pos = vIte(in, p, pos)
		rev = vIteB(in, s.rev, rev)
		off += n
	}
	return pos, rev
}

// vGenRegion builds k forward segments [h, h+l) with l>=1 (any order/overlap), optionally complemented.
func vGenRegion(name string, k int, compl bool) Region {
	var r Region
	if k == 1 {
		h := vIntIn(name+".h0", 0, vCap)
		l := vIntIn(name+".l0", 1, vCap)
		r = Segment{h, h + l}
	} else {
		rr := make(Regions, k)
		for j := 0; j < k; j++ {
			h := vIntIn(name+".h"+string(rune('0'+j)), 0, vCap)
			l := vIntIn(name+".l"+string(rune('0'+j)), 1, vCap)
			rr[j] = Segment{h, h + l}
		}
		r = rr
	}
	if compl {
		// built by hand (not through the code under test): segments in reverse order, each (tail, head)
		switch v := r.(type) {
		case Segment:
			r = Segment{v[1], v[0]}
		case Regions:
			rr := make(Regions, len(v))
			for j := range v {
				s := v[len(v)-1-j].(Segment)
				rr[j] = Segment{s[1], s[0]}
			}
			r = rr
		}
	}
	return r
}

func vGenModifier(name string, form int, lim int) (Modifier, int, int) {
	p := vIntIn(name+".p", -lim, lim)
	switch form {
	case 0:
		return Head(p), 0, 0
	case 1:
		return Tail(p), 0, 0
	}
	q := vIntIn(name+".q", -lim, lim)
	switch form {
	case 2:
		return HeadTail{p, q}, 0, 0
	case 3:
		return HeadHead{p, q}, 0, 0
	default:
		return TailTail{p, q}, 0, 0
	}
}

func vC08Resize(k int, compl bool) {
	R := vGenRegion("R", k, compl)
	rs := vSegs(R)
	n := vSegsLen(rs)
	form := vChoice("form", 5)
	mod, _, _ := vGenModifier("m", form, 4*vCap)
	// reference [lo,hi) in region coordinates
	var lo, hi int
	switch v := mod.(type) {
	case Head:
		lo, hi = int(v), int(v)
	case Tail:
		lo, hi = n+int(v), n+int(v)
	case HeadTail:
		lo, hi = v[0], n+v[1]
	case HeadHead:
		lo, hi = v[0], v[1]
	case TailTail:
		lo, hi = n+v[0], n+v[1]
	}
	hi = vMax(lo, hi)
	// offsets in [-len-3, len+3] as the property's quantifier says (3 replaced by a symbolic margin)
	vAssume(vAnd(-n-vCap <= lo, hi <= n+vCap))
	var out Region
	if vPanics(func() { out = R.Resize(mod) }) {
		vAssert("resize-no-panic", false)
		return
	}
	os := vSegs(out)
	vCover("resized")
	vAssert("len", vSegsLen(os) == hi-lo)
	t := vIntIn("t", 0, 8*vCap)
	vAssume(t < hi-lo)
	p1, r1 := vPos(os, t)
	p0, r0 := vPos(rs, lo+t)
	vAssert("pos", vAnd(p1 == p0, r1 == r0))
	// strand mirroring: the complement of the region, computed by the code, reads the same bases backwards
	cs := vSegs(R.Complement())
	vAssert("complement-length", vSegsLen(cs) == n)
	u := vIntIn("u", 0, 8*vCap)
	vAssume(u < n)
	pc, rc := vPos(cs, u)
	pr, rr := vPos(rs, n-1-u)
	vAssert("complement-mirrors", vAnd(pc == pr, rc != rr))
	if k == 1 {
		// single segment: a collapsed result sits exactly at the requested boundary
		s := rs[0]
		want := vIte(s.rev, s.hi-lo, s.lo+lo)
		vAssert("point-position", vImplies(hi == lo, vAnd(out.Head() == want, out.Tail() == want)))
	}
	vObserve("no", len(os))
	vObserve("o0.lo", os[0].lo)
	vObserve("o0.hi", os[0].hi)
}

//verif:harness prop=C08 quick=6 thorough=10
//verif:bounds Regions.Resize/Segment.Resize with 1..3 (quick) / 1..5 (thorough) segments, forward or complemented, all five modifier forms; segment heads/lengths and offsets symbolic (|.|<=2^42)
func VH_C08_resize() {
	n := 6
	if vTier() == 1 {
		n = 10
	}
	s := vShard(n)
	vC08Resize(s/2+1, s%2 == 1)
}

// ---- modifiers print and re-parse to themselves; locators compose ---------------------------

//verif:harness prop=C08 quick=5 thorough=5 merge=concrete timeout=1200
//verif:bounds Modifier.String / AsModifier for the five forms with symbolic offsets in [-99,99] (quick) / [-9999,9999] (thorough), every sign and digit count
func VH_C08_modifier_text() {
	form := vShard(5)
	lim := 99 + 9900*vTier()
	mod, _, _ := vGenModifier("m", form, lim)
	s := mod.String()
	vCover("printed")
	back, err := AsModifier(s)
	vAssert("reparse-accepts", err == nil)
	if err != nil {
		return
	}
	h0, t0 := mod.Apply(100000, 200000)
	h1, t1 := back.Apply(100000, 200000)
	vAssert("same-modifier", vAnd(h0 == h1, t0 == t1))
	vAssert("prints-identically", back.String() == s)
	switch mod.(type) {
	case Head:
		_, ok := back.(Head)
		vAssert("same-form", ok)
	case Tail:
		_, ok := back.(Tail)
		vAssert("same-form", ok)
	case HeadTail:
		_, ok := back.(HeadTail)
		vAssert("same-form", ok)
	case HeadHead:
		_, ok := back.(HeadHead)
		vAssert("same-form", ok)
	case TailTail:
		_, ok := back.(TailTail)
		vAssert("same-form", ok)
	}
	vObserve("len", len(s))
}

//verif:harness prop=C08 quick=4 thorough=8 merge=concrete timeout=1200
//verif:bounds locator composition: sequence of 9 residues with two gene features (range and complemented range, symbolic coordinates) and a cds; locator strings gene | gene@M | @M | 3..6 | 3..6@M | complement(3..6)@M | 4 | M for M in {^, $, ^+1..$-1, ^-1..^+2, $-2..$}: AsLocator(s)(seq) equals the regions of the specifier, each resized by M, in table order, also when the locator is applied a second time
func VH_C08_locators() {
	const L = 9
	mods := []string{"^", "$", "^+1..$-1", "^-1..^+2", "$-2..$"}
	sh := vShard(4 + 4*vTier())
	mi := sh % len(mods)
	if sh >= 4 {
		mi = (sh + 1) % len(mods)
	}
	mtxt := mods[mi]
	mod, err := AsModifier(mtxt)
	vAssert("modifier-parses", err == nil)
	s1 := vIntIn("s1", 0, L-2)
	e1 := vIntIn("e1", 2, L)
	vAssume(s1+1 < e1)
	s2 := vIntIn("s2", 0, L-2)
	e2 := vIntIn("e2", 2, L)
	vAssume(s2+1 < e2)
	ff := FeatureSlice{}
	ff = ff.Insert(Feature{"gene", Range(s1, e1), Props{[]string{"tag", "a"}}})
	ff = ff.Insert(Feature{"gene", Range(s2, e2).Complement(), Props{[]string{"tag", "b"}}})
	ff = ff.Insert(Feature{"cds", Range(0, 1), Props{[]string{"tag", "c"}}})
	seq := New(nil, ff, make([]byte, L))
	same := func(label string, got Regions, want []Region) {
		vAssert(label+"-count", len(got) == len(want))
		if len(got) != len(want) {
			return
		}
		for i := range want {
			vAssert(label+"-region", vAnd(got[i].Head() == want[i].Head(), got[i].Tail() == want[i].Tail()))
		}
	}
	run := func(s string) Regions {
		loc, err := AsLocator(s)
		vAssert("locator-parses", err == nil)
		if err != nil {
			return nil
		}
		first := loc(seq)
		// a locator is applied to every record of a stream: the second application gives the same regions
		again := loc(seq)
		vAssert("locator-is-repeatable", len(again) == len(first))
		if len(again) == len(first) {
			for i := range first {
				vAssert("locator-is-repeatable", vAnd(again[i].Head() == first[i].Head(), again[i].Tail() == first[i].Tail()))
			}
		}
		return again
	}
	vCover("located")
	// selector: matching features in table order
	var genes []Region
	for _, f := range seq.Features() {
		if f.Key == "gene" {
			genes = append(genes, f.Loc.Region())
		}
	}
	same("selector", run("gene"), genes)
	var resized []Region
	for _, r := range genes {
		resized = append(resized, r.Resize(mod))
	}
	same("selector@M", run("gene@"+mtxt), resized)
	// bare @M: every feature resized
	var all []Region
	for _, f := range seq.Features() {
		all = append(all, f.Loc.Region().Resize(mod))
	}
	same("@M", run("@"+mtxt), all)
	// bare range / point / complement
	same("range", run("3..6"), []Region{Segment{2, 6}})
	same("range@M", run("3..6@"+mtxt), []Region{Segment{2, 6}.Resize(mod)})
	same("complement@M", run("complement(3..6)@"+mtxt), []Region{Segment{6, 2}.Resize(mod)})
	same("point", run("4"), []Region{Segment{3, 4}})
	// bare modifier: the whole sequence resized
	same("M", run(mtxt), []Region{Segment{0, L}.Resize(mod)})
	vObserve("ngenes", len(genes))
}

//verif:harness prop=C08 quick=2 thorough=4 merge=concrete timeout=1200
//verif:bounds bare selectors whose key does not start with a letter: a feature keyed c+"'UTR" (quick) / c+"_signal", c+"x", "3..6"+c (thorough), c one symbolic byte over [0-9A-Za-z_-]: AsLocator(key)(seq) is that feature's region, AsLocator(key@^..$) likewise, unless the whole string is itself a location or modifier
func VH_C08_locator_keys() {
	const L = 9
	sh := vShard(2 + 2*vTier())
	c := vByte("c")
	ok := vOr(vOr(vAnd('0' <= c, c <= '9'), vAnd('a' <= c, c <= 'z')), vOr(vAnd('A' <= c, c <= 'Z'), vOr(c == '_', c == '-')))
	vAssume(ok)
	var key string
	switch sh {
	case 0, 1:
		key = string([]byte{c}) + "'UTR"
	case 2:
		key = string([]byte{c}) + "_signal"
	default:
		key = "3..6" + string([]byte{c})
	}
	if sh == 3 {
		vAssume(!vAnd('0' <= c, c <= '9')) // 3..6 followed by a digit is a range
	}
	s := vIntIn("s", 0, L-2)
	e := vIntIn("e", 2, L)
	vAssume(s+1 < e)
	ff := FeatureSlice{}
	ff = ff.Insert(Feature{"gene", Range(0, 1), vFeatTag(0)})
	ff = ff.Insert(Feature{key, Range(s, e), vFeatTag(1)})
	seq := New(nil, ff, make([]byte, L))
	txt := key
	if sh == 1 {
		txt = key + "@^..$"
	}
	loc, err := AsLocator(txt)
	vAssert("selector-accepted", err == nil)
	if err != nil {
		return
	}
	vCover("located")
	rr := loc(seq)
	vAssert("selects-the-keyed-feature", vAnd(len(rr) == 1, true))
	if len(rr) == 1 {
		vAssert("selects-the-keyed-feature", vAnd(rr[0].Head() == s, rr[0].Tail() == e))
	}
	vObserve("n", len(rr))
}

//verif:harness prop=C08 quick=1 thorough=1
//verif:bounds zero-length regions (between-sites) on either strand, symbolic position and offsets in [0,2^40]: site@^-p..$+q extends by p on the 5' side and q on the 3' side in the direction of the feature's strand
func VH_C08_site_strand() {
	g := vIntIn("g", 0, vCap)
	p := vIntIn("p", 0, vCap)
	q := vIntIn("q", 0, vCap)
	vAssume(p+q > 0)
	fwd := Between(g).Region().Resize(HeadTail{-p, q})
	vCover("resized")
	vAssert("forward-site-extends-on-its-strand", vAnd(fwd.Head() == g-p, fwd.Tail() == g+q))
	rev := Between(g).Complement().Region().Resize(HeadTail{-p, q})
	// on the complement strand the 5' side lies at the higher coordinates
	vAssert("complement-site-extends-on-its-strand", vAnd(rev.Head() == g+p, rev.Tail() == g-q))
	vObserve("head", rev.Head())
	vObserve("tail", rev.Tail())
}

//verif:harness prop=C08 quick=4 thorough=8 merge=concrete timeout=1500 steps=300000000
//verif:bounds the law as stated, on residues: sequence of 6 (quick) / 7 (thorough) residues (symbolic over {a,c,g,t} on the forward strand, concrete when complemented: the complement table forks per symbolic byte); region = one segment of every position and length, or two segments of length 1..2 at every position (any order, overlap allowed), forward or complemented; every modifier form with offsets such that the result stays inside the region (incl. empty results at either end): Locate(region.Resize(M)) equals the slice [lo,hi) of Locate(region)
func VH_C08_extract_law() {
	sh := vShard(4 + 4*vTier())
	L := 6 + sh/4
	data := vACGT("r", L)
	if sh%2 == 1 {
		data = []byte("acgtgca")[:L]
	}
	seq := New(nil, nil, data)
	maxl := L
	if sh%4 >= 2 {
		maxl = 2
	}
	seg := func(name string) Segment {
		h := vChoice(name+".h", L)
		l := 1 + vChoice(name+".l", vMinC(maxl, L-h))
		return Segment{h, h + l}
	}
	var R Region
	if sh%4 < 2 {
		R = seg("s0")
	} else {
		R = Regions{seg("s0"), seg("s1")}
	}
	if sh%2 == 1 {
		R = R.Complement()
	}
	n := R.Len()
	form := vChoice("form", 5)
	p := vChoice("p", n+1)
	q := 0
	if form >= 2 {
		q = vChoice("q", n+1)
	}
	var mod Modifier
	lo, hi := 0, 0
	switch form {
	case 0:
		mod, lo, hi = Head(p), p, p
	case 1:
		mod, lo, hi = Tail(-p), n-p, n-p
	case 2:
		mod, lo, hi = HeadTail{p, -q}, p, n-q
	case 3:
		mod, lo, hi = HeadHead{p, q}, p, q
	default:
		mod, lo, hi = TailTail{-p, -q}, n-p, n-q
	}
	if hi < lo {
		hi = lo
	}
	whole := R.Locate(seq).Bytes()
	vAssert("whole-length", len(whole) == n)
	var part []byte
	if vPanics(func() { part = R.Resize(mod).Locate(seq).Bytes() }) {
		vAssert("no-panic", false)
		return
	}
	vCover("extracted")
	vAssert("resized-length", len(part) == hi-lo)
	if len(part) == hi-lo && len(whole) == n {
		for k := range part {
			vAssert("resized-equals-slice-of-whole", part[k] == whole[lo+k])
		}
	}
	vObserve("len", len(part))
}

func vMinC(a, b int) int {
	if a < b {
		return a
	}
	return b
}
