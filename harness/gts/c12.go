package gts

// C12 — Repair re-assembles fragmented features and changes nothing else.

func vSameTable(a, b []Feature) bool {
	if len(a) != len(b) {
		return false
	}
	ok := true
	for i := range a {
		ok = vAnd(ok, vAnd(a[i].Key == b[i].Key, vAnd(vSameAtoms(vAtoms(a[i].Loc), vAtoms(b[i].Loc)), vPropsString(a[i].Props) == vPropsString(b[i].Props))))
	}
	return ok
}

// vAbutPair: f's 3'-partial end meets g's 5'-partial start (any abutting ends for source), same strand.
func vAbutPair(f, g Feature) bool {
	if f.Key != g.Key || vPropsString(f.Props) != vPropsString(g.Props) {
		return false
	}
	force := f.Key == "source"
	as, bs := vAtoms(f.Loc), vAtoms(g.Loc)
	c := false
	for _, a := range as {
		for _, b := range bs {
			if a.kind == vkRanged && b.kind == vkRanged && a.rev == b.rev {
				meet := vAnd(a.e == b.s, vOr(force, vAnd(a.p3, b.p5)))
				c = vOr(c, meet)
			}
		}
	}
	return c
}

func vClassCov(ff []Feature, key string, x int, rev bool) bool {
	c := false
	for _, f := range ff {
		if f.Key == key {
			c = vOr(c, vCovS(vAtoms(f.Loc), x, rev))
		}
	}
	return c
}

func vGenRepairLoc(name string, L int, rich bool) Location {
	n := 2
	if rich {
		n = 4
	}
	switch vChoice(name+".f", n) {
	case 0:
		return vGenAtom(name, L, 1)
	case 1:
		return vGenAtom(name, L, 1).Complement()
	case 2:
		return Join(vGenParts(name, 2, L, 1)...)
	default:
		return vGenAtom(name, L, 3)
	}
}

//verif:harness prop=C12 quick=4 thorough=8 timeout=1500
//verif:bounds safety clauses on tables of 2 (quick) / 3 (thorough) features; keys from {gene,cds,source} chosen per shard, equal qualifiers; locations: ranged on either strand (quick) plus 2-part joins and point/between atoms (thorough), coordinates and partial flags symbolic
func VH_C12_repair_safety() {
	L := vIntIn("L", 1, vCap)
	rich := vTier() == 1
	nf := 2 + vTier()
	sh := vShard(4 + 4*vTier())
	keys := [][]string{{"gene", "gene", "gene"}, {"gene", "cds", "gene"}, {"source", "source", "gene"}, {"source", "gene", "gene"},
		{"gene", "gene", "cds"}, {"cds", "gene", "cds"}, {"source", "source", "source"}, {"gene", "source", "gene"}}[sh]
	ff := make([]Feature, nf)
	for k := range ff {
		ff[k] = Feature{keys[k], vGenRepairLoc("f"+string(rune('0'+k)), L, rich), vFeatTag(0)}
	}
	orig := append([]Feature{}, ff...)
	var out []Feature
	p := vPanics(func() { out = Repair(ff) })
	vAssert("no-panic", !p)
	if p {
		return
	}
	vCover("repaired")
	vAssert("argument-unchanged", vSameTable(ff, orig))
	// idempotent
	var out2 []Feature
	p2 := vPanics(func() { out2 = Repair(out) })
	vAssert("no-panic-second", !p2)
	if p2 {
		return
	}
	vAssert("idempotent", vSameTable(out, out2))
	// no abutting same-class pair => unchanged
	anyPair := false
	for a := range ff {
		for b := range ff {
			if a != b {
				anyPair = vOr(anyPair, vAbutPair(ff[a], ff[b]))
			}
		}
	}
	if len(out) == len(ff) {
		vCover("same-count")
		vAssert("unchanged-without-abutting-pair", vImplies(!anyPair, vSameTable(out, ff)))
	} else {
		vCover("merged")
		vAssert("merge-needs-abutting-pair", anyPair)
		vAssert("never-grows", len(out) < len(ff))
	}
	// coverage of each class is unchanged
	x := vIntIn("x", 0, vCap)
	vAssume(x < L)
	for _, key := range []string{"gene", "cds", "source"} {
		vAssert("class-coverage-fwd", vClassCov(out, key, x, false) == vClassCov(ff, key, x, false))
		vAssert("class-coverage-rev", vClassCov(out, key, x, true) == vClassCov(ff, key, x, true))
	}
	vObserve("nout", len(out))
}

//verif:harness prop=C12 quick=1 thorough=2 timeout=1500
//verif:bounds chains of three fragments of one class (key gene, equal qualifiers): two ranges and one 2-part join of ranges in any part order (so the join may sort before the fragments it continues), all on the forward strand (thorough shard 2: all complemented), coordinates and partial flags symbolic: Repair does not panic, is idempotent (one call reaches the fixed point), merges only abutting 3'-partial/5'-partial ends and keeps the residues covered by the class
func VH_C12_repair_chain() {
	L := vIntIn("L", 1, vCap)
	rev := vShard(1+vTier()) == 1
	mk := func(name string, join bool) Location {
		var loc Location
		if join {
			loc = Join(vGenParts(name, 2, L, 1)...)
		} else {
			loc = vGenAtom(name, L, 1)
		}
		if rev {
			loc = loc.Complement()
		}
		return loc
	}
	ff := []Feature{{"gene", mk("f0", false), vFeatTag(0)}, {"gene", mk("f1", false), vFeatTag(0)}, {"gene", mk("f2", true), vFeatTag(0)}}
	var out, out2 []Feature
	p := vPanics(func() { out = Repair(ff) })
	vAssert("no-panic", !p)
	if p {
		return
	}
	vCover("repaired")
	p2 := vPanics(func() { out2 = Repair(out) })
	vAssert("no-panic-second", !p2)
	if p2 {
		return
	}
	vAssert("idempotent", vSameTable(out, out2))
	anyPair := false
	for a := range ff {
		for b := range ff {
			if a != b {
				anyPair = vOr(anyPair, vAbutPair(ff[a], ff[b]))
			}
		}
	}
	if len(out) != len(ff) {
		vCover("merged")
		vAssert("merge-needs-abutting-pair", anyPair)
	}
	x := vIntIn("x", 0, vCap)
	vAssume(x < L)
	vAssert("class-coverage-fwd", vClassCov(out, "gene", x, false) == vClassCov(ff, "gene", x, false))
	vAssert("class-coverage-rev", vClassCov(out, "gene", x, true) == vClassCov(ff, "gene", x, true))
	vObserve("nout", len(out))
}

//verif:harness prop=C12 quick=3 thorough=6 timeout=1500
//verif:bounds restoration: a sequence of length 6 (quick) / 8 (thorough) with a source feature and one (quick) / two (thorough) class-unique features (ranged either strand, 2-part join with ascending disjoint parts) with symbolic coordinates and partial flags, cut at 1 (quick) / 1..2 (thorough) symbolic positions, pieces concatenated, table repaired
func VH_C12_repair_roundtrip() {
	L := 6 + 2*vTier()
	sh := vShard(3 + 3*vTier())
	var loc Location
	switch sh % 3 {
	case 0:
		loc = vGenAtom("f", L, 1)
	case 1:
		loc = vGenAtom("f", L, 1).Complement()
	default:
		parts := vGenParts("f", 2, L, 1)
		// restoration is claimed for joins in the normal INSDC form: parts ascending and disjoint
		// (fragments of out-of-order or overlapping parts interleave and cannot be paired from
		// the table alone; for those only the safety clauses are checked, in VH_C12_repair_safety)
		vAssume(parts[0].(Ranged).End <= parts[1].(Ranged).Start)
		loc = Join(parts...)
	}
	ff := FeatureSlice{}
	ff = ff.Insert(Feature{"source", Range(0, L), vFeatTag(0)})
	ff = ff.Insert(Feature{"gene", loc, vFeatTag(1)})
	if sh >= 3 {
		ff = ff.Insert(Feature{"cds", vGenAtom("g", L, 1), vFeatTag(2)})
	}
	// the original table contains no abutting same-class fragments of its own (single feature per class)
	seq := Sequence(New(nil, ff, make([]byte, L)))
	c1 := vIntIn("c1", 1, L-1)
	cuts := []int{c1}
	var pieces []Sequence
	if sh >= 3 {
		c2 := vIntIn("c2", 1, L-1)
		vAssume(c1 < c2)
		cuts = append(cuts, c2)
		pieces = []Sequence{Slice(seq, 0, c1), Slice(seq, c1, c2), Slice(seq, c2, L)}
	} else {
		pieces = []Sequence{Slice(seq, 0, c1), Slice(seq, c1, L)}
	}
	cat := Concat(pieces...)
	var out []Feature
	p := vPanics(func() { out = Repair(cat.Features()) })
	vAssert("no-panic", !p)
	if p {
		return
	}
	vCover("round-trip")
	if len(out) != len(ff) {
		vCover("count-differs")
		// only legitimate when some cut fell in a gap / on a boundary of a multi-part feature
		dirty := false
		for _, f := range ff {
			a := vAtoms(f.Loc)
			for _, c := range cuts {
				inside, lo, hi := false, a[0].s, a[0].e
				for _, at := range a {
					inside = vOr(inside, vAnd(at.s < c, c < at.e))
					lo, hi = vMin(lo, at.s), vMax(hi, at.e)
				}
				dirty = vOr(dirty, !vOr(inside, vOr(c <= lo, hi <= c)))
			}
		}
		vAssert("same-count", dirty)
		return
	}
	for k := range ff {
		// find the feature with the same tag
		for _, g := range out {
			if g.Props[0][1] == ff[k].Props[0][1] {
				a, b := vAtoms(ff[k].Loc), vAtoms(g.Loc)
				// restoration is asserted when every cut falls strictly inside a part of the
				// feature or misses its span; a cut in the gap between two parts (or exactly on a
				// part boundary) leaves fragments without partial markers, which the safety clause
				// of C12 forbids to merge (see DESIGN §6)
				clean := true
				for _, c := range cuts {
					inside, lo, hi := false, a[0].s, a[0].e
					for _, at := range a {
						inside = vOr(inside, vAnd(at.s < c, c < at.e))
						lo, hi = vMin(lo, at.s), vMax(hi, at.e)
					}
					clean = vAnd(clean, vOr(inside, vOr(c <= lo, hi <= c)))
				}
				if ff[k].Key == "source" {
					// up to the partial markers that slicing strips
					vAssert("source-restored", vAnd(len(b) == 1, vAnd(b[0].s == a[0].s, b[0].e == a[0].e)))
				} else {
					vAssert("feature-restored", vImplies(clean, vSameAtoms(a, b)))
				}
			}
		}
	}
	vObserve("nout", len(out))
}

//verif:harness prop=C12 quick=3 thorough=3 merge=concrete timeout=1200
//verif:bounds two gene features that abut with a 3'-partial end meeting a 5'-partial start (symbolic coordinates), qualifiers differing: one /note value of 2 symbolic printable bytes each | /note="a b" against /note="a" /note="b" (a, b symbolic bytes) | one 7-byte value against two qualifiers: merged iff the qualifier lists are equal
func VH_C12_repair_qualifiers() {
	sh := vShard(3)
	s := vIntIn("s", 0, 50)
	m := vIntIn("m", 1, 60)
	e := vIntIn("e", 2, 70)
	vAssume(vAnd(s < m, m < e))
	var p0, p1 Props
	equal := false
	switch sh {
	case 0:
		v0, v1 := vBytesIn("v0", 2, 32, 126), vBytesIn("v1", 2, 32, 126)
		p0, p1 = Props{[]string{"note", string(v0)}}, Props{[]string{"note", string(v1)}}
		equal = vAnd(v0[0] == v1[0], v0[1] == v1[1])
	case 1:
		a, b := vBytesIn("a", 1, 32, 126), vBytesIn("b", 1, 32, 126)
		p0 = Props{[]string{"note", string(a) + " " + string(b)}}
		p1 = Props{[]string{"note", string(a), string(b)}}
	default:
		v := vBytesIn("v", 7, 32, 126)
		p0 = Props{[]string{"n", string(v)}}
		p1 = Props{[]string{"n", "x"}, []string{"m", "y"}}
	}
	ff := []Feature{
		{"gene", PartialRange(s, m, Partial{false, true}), p0},
		{"gene", PartialRange(m, e, Partial{true, false}), p1},
	}
	var out []Feature
	p := vPanics(func() { out = Repair(ff) })
	vAssert("no-panic", !p)
	if p {
		return
	}
	vCover("repaired")
	vAssert("merged-iff-qualifiers-equal", (len(out) == 1) == equal)
	vObserve("nout", len(out))
}
