package gts

import "regexp"

// C19 — feature selection and sorted insertion.

func vGenOrdForm(name string, L int, form int) Location {
	switch form {
	case 0:
		return vGenAtom(name, L, 4)
	case 1:
		return vGenAtom(name, L, 4).Complement()
	case 2:
		return Join(vGenParts(name, 2, L, 2)...)
	default:
		return Order(vGenParts(name, 2, L, 2)...)
	}
}

func vGenOrdLoc(name string, L int, rich bool) Location {
	n := 2
	if rich {
		n = 4
	}
	return vGenOrdForm(name, L, vChoice(name+".f", n))
}

//verif:harness prop=C19 quick=4 thorough=16 timeout=1500
//verif:bounds LocationLess on triples of locations: quick atoms (4 kinds) plain or complemented and a join of two ranged/point parts as first or second operand, thorough additionally join/order of two ranged/point parts (one shard per form of the first two locations); coordinates symbolic in [0,2^40]
func VH_C19_locless_order() {
	L := vIntIn("L", 1, vCap)
	rich := vTier() == 1
	sh := vShard(4 + 12*vTier())
	var a, b Location
	if rich {
		a = vGenOrdForm("a", L, sh/4)
		b = vGenOrdForm("b", L, sh%4)
	} else if sh < 3 {
		a = vGenOrdForm("a", L, sh) // atom | complemented atom | join of two
		b = vGenOrdLoc("b", L, false)
	} else {
		a = vGenOrdForm("a", L, 0)
		b = vGenOrdForm("b", L, 2) // a multi-part right operand
	}
	c := vGenOrdLoc("c", L, rich)
	vCover("triple")
	ab, ba := LocationLess(a, b), LocationLess(b, a)
	bc, ac := LocationLess(b, c), LocationLess(a, c)
	vAssert("irreflexive", !LocationLess(a, a))
	vAssert("asymmetric", !vAnd(ab, ba))
	vAssert("transitive", vImplies(vAnd(ab, bc), ac))
	vObserve("ab", ab)
	vObserve("bc", bc)
}

func vFeatTag(k int) Props { return Props{[]string{"tag", string(rune('0' + k))}} }

//verif:harness prop=C19 quick=1 thorough=6 timeout=1500
//verif:bounds FeatureSlice.Insert: tables built by 1..3 (quick) / 1..4 (thorough) insertions from empty; keys from {gene, source}; atom locations (4 kinds; thorough shard s uses the first s%4+1 kinds, shards 4..5 make exactly 4 insertions of ranged/point locations; 4 insertions with between/ambiguous locations exceed the time budget) with symbolic coordinates
func VH_C19_insert_sorted() {
	L := vIntIn("L", 1, vCap)
	sh := 0
	if vTier() == 1 {
		sh = vShard(6)
	}
	n := 1 + vChoice("n", 3)
	if sh >= 4 {
		n = 4
	}
	var ff FeatureSlice
	var want []Feature
	for k := 0; k < n; k++ {
		key := "gene"
		if vChoice("src"+string(rune('0'+k)), 2) == 1 {
			key = "source"
		}
		kinds := 4
		if vTier() == 1 {
			kinds = 1 + sh%4
		}
		f := Feature{key, vGenAtom("f"+string(rune('0'+k)), L, kinds), vFeatTag(k)}
		before := len(ff)
		out := ff.Insert(f)
		vAssert("grows-by-one", len(out) == before+1)
		ff = out
		want = append(want, f)
	}
	vCover("inserted")
	// exactly the inserted features, each once (tags are distinct)
	for k := 0; k < n; k++ {
		cnt := 0
		for _, g := range ff {
			if g.Props[0][1] == want[k].Props[0][1] {
				cnt++
				vAssert("feature-unaltered", vAnd(g.Key == want[k].Key, vSameAtoms(vAtoms(g.Loc), vAtoms(want[k].Loc))))
			}
		}
		vAssert("present-once", cnt == 1)
	}
	// sources first, then non-decreasing location order
	seenOther := false
	for j := range ff {
		if ff[j].Key == "source" {
			vAssert("sources-first", !seenOther)
		} else {
			seenOther = true
		}
	}
	for j := 0; j < len(ff); j++ {
		for k := j + 1; k < len(ff); k++ {
			if ff[j].Key != "source" && ff[k].Key != "source" {
				vAssert("sorted", !LocationLess(ff[k].Loc, ff[j].Loc))
			}
		}
	}
	vObserve("n", len(ff))
}

func vSameAtoms(a, b []vAtom) bool {
	if len(a) != len(b) {
		return false
	}
	ok := true
	for k := range a {
		ok = vAnd(ok, vAnd(vAnd(a[k].s == b[k].s, a[k].e == b[k].e), vAnd(a[k].kind == b[k].kind, a[k].rev == b[k].rev)))
		ok = vAnd(ok, vAnd(a[k].p5 == b[k].p5, a[k].p3 == b[k].p3))
	}
	return ok
}

//verif:harness prop=C19 quick=3 thorough=6
//verif:bounds Within/Overlap/Key/And/Or/Not/strand filters and FeatureSlice.Filter on tables of 2 features (quick) / 3 (thorough) with S1 locations and a join with parts on both strands; bounds and coordinates symbolic
func VH_C19_filters() {
	L := vIntIn("L", 1, vCap)
	nf := 2 + vTier()
	fam := vShard(3 + 3*vTier())
	ff := make(FeatureSlice, nf)
	for k := range ff {
		key := "gene"
		if k == 1 {
			key = "cds"
		}
		fk := 0
		if k == 0 {
			fk = fam
		}
		ff[k] = Feature{key, vGenFamily("f"+string(rune('0'+k)), fk, L, 4), vFeatTag(k)}
	}
	if fam == 1 && vBool("mixed") {
		// a join with parts on both strands is neither a forward- nor a reverse-strand feature
		q := vGenParts("m", 2, L, 2)
		ff[0].Loc = Join(q[0].Complement(), q[1])
	}
	lo := vIntIn("lo", 0, vCap)
	hi := vIntIn("hi", 0, vCap)
	vAssume(vAnd(lo <= hi, hi <= L))
	within, overlap := Within(lo, hi), Overlap(lo, hi)
	vCover("filters")
	for k, f := range ff {
		as := vAtoms(f.Loc)
		// pointwise reference: Within = every atom's span inside [lo,hi]; Overlap = some atom's span meets (lo,hi)
		w, o := true, false
		for _, a := range as {
			w = vAnd(w, vAnd(lo <= a.s, a.e <= hi))
			o = vOr(o, vAnd(a.s < hi, lo < a.e))
		}
		wf, of := within(f), overlap(f)
		vAssert("within", wf == w)
		vAssert("overlap", of == o)
		// boolean algebra
		vAssert("and", And(within, overlap)(f) == vAnd(wf, of))
		vAssert("or", Or(within, overlap)(f) == vOr(wf, of))
		vAssert("not", Not(within)(f) == !wf)
		vAssert("key", Key(f.Key)(f))
		vAssert("key-other", !Key("other")(f))
		vAssert("key-empty", Key("")(f))
		rev := true
		fwd := true
		for _, a := range as {
			rev = vAnd(rev, a.rev)
			fwd = vAnd(fwd, !a.rev)
		}
		vAssert("forward-strand", ForwardStrand(f) == fwd)
		vAssert("reverse-strand", ReverseStrand(f) == rev)
		_ = k
	}
	// Filter returns exactly the accepted features, in order, unmodified
	got := ff.Filter(overlap)
	j := 0
	for _, f := range ff {
		acc := overlap(f)
		// fork on acceptance (concrete per path)
		if acc {
			vAssert("filter-keeps", vAnd(j < len(got), true))
			if j < len(got) {
				vAssert("filter-order-unmodified", vAnd(got[j].Props[0][1] == f.Props[0][1], vSameAtoms(vAtoms(got[j].Loc), vAtoms(f.Loc))))
			}
			j++
		}
	}
	vAssert("filter-exact", j == len(got))
	vObserve("kept", len(got))
}

// ---- selectors ------------------------------------------------------------------------------

// vRefSelector: reference semantics of '[key][/[name][=regexp]]...' written from the documentation.
// match(re, v) is the same (uninterpreted) regexp verdict the real code sees.
func vRefSelector(sel string, f Feature, match func(re, v string) bool) bool {
	pieces := []string{""}
	for i := 0; i < len(sel); i++ {
		if sel[i] == '/' && (i == 0 || sel[i-1] != '\\') { // `\/` is a slash inside a regexp, not a separator
			pieces = append(pieces, "")
		} else {
			pieces[len(pieces)-1] += string(sel[i])
		}
	}
	ok := true
	if pieces[0] != "" {
		ok = f.Key == pieces[0]
	}
	for k, c := range pieces[1:] {
		if c == "" && k == len(pieces)-2 {
			continue // a trailing '/' adds no clause
		}
		name, re := c, ""
		for i := 0; i < len(c); i++ {
			if c[i] == '=' {
				name, re = c[:i], c[i+1:]
				break
			}
		}
		sat := false
		for _, kv := range f.Props {
			if name != "" && kv[0] != name {
				continue
			}
			for _, v := range kv[1:] {
				if name != "" && re == "" {
					sat = true
				} else {
					sat = vOr(sat, match(re, v))
				}
			}
			if name != "" && re == "" {
				sat = true // the qualifier is present
			}
		}
		ok = vAnd(ok, sat)
	}
	return ok
}

//verif:harness prop=C19 quick=5 thorough=10 merge=concrete
//verif:bounds Selector on a fixed list of selector strings assembled from key {a,b,""}, clause names {n,m,""}, regexps {x,""}, plus a list with escapes and classes (\\d \\/ \\w \\s . [0-9]) on concrete values; one feature with symbolic one-letter key, two qualifiers with symbolic one-letter names over {m,n,x} (possibly equal, as one multi-valued entry or as two entries with the same name; x is also a value letter) and 1-2 symbolic one-letter values each
//verif:assume regexp verdicts on symbolic values are an uninterpreted predicate of (pattern, value), shared by the code and the reference
func VH_C19_selector() {
	sels := [][]string{
		{"", "a", "b", "a/", "/n"},
		{"a/n", "/n=x", "a/n=x", "/=x", "a/=x"},
		{"/n/m", "/n=x/m", "a/n=x/m=x", "/n=", "a//n"},
		{"/n=x/=x", "b/m=x", "/=", "//", "/m/n=x"},
		// regexps with escapes and classes, on concrete values (decided by the real regexp package)
		{`/n=x\d`, `/m=1\/2`, `/=\wy`, `a/n=^x\d$/m=\/`, `/n=x\s`, `/=x.`, `/m=[0-9]\/`},
	}
	sh := vShard(5 + 5*vTier())
	list := sels[sh%5]
	key := string(vBytesIn("key", 1, 'a', 'b'))
	// names and values share the letter x: a clause on values must not be satisfied by a name
	n1 := string([]byte{"mnx"[vIntIn("n1", 0, 2)]})
	n2 := string([]byte{"mnx"[vIntIn("n2", 0, 2)]})
	v1 := string(vBytesIn("v1", 1, 'x', 'y'))
	v2 := string(vBytesIn("v2", 1, 'x', 'y'))
	props := Props{}
	props.Add(n1, v1)
	if sh >= 5 {
		props.Add(n1, string(vBytesIn("v1b", 1, 'x', 'y'))) // a multi-valued qualifier
	}
	if vBool("literal") {
		// a hand-built table may repeat a name in two entries instead of one multi-valued entry
		props = append(props, []string{n2, v2})
	} else {
		props.Add(n2, v2) // same name as n1: the value is added to that qualifier
	}
	if sh%5 == 4 {
		key = "a"
		props = Props{[]string{"n", "x1"}, []string{"m", "1/2"}}
		if sh >= 5 {
			props = Props{[]string{"n", "x1", "zy"}, []string{"m", "x 2"}}
		}
	}
	f := Feature{key, Range(0, 1), props}
	match := func(re, v string) bool {
		r, err := regexpCompileForHarness(re)
		if err != nil {
			return false
		}
		return r.MatchString(v)
	}
	for _, sel := range list {
		filter, err := Selector(sel)
		vAssert("selector-compiles", err == nil)
		if err != nil {
			continue
		}
		vCover("selected")
		vAssert("selector-semantics", filter(f) == vRefSelector(sel, f, match))
	}
	vObserve("n", len(props))
}

func regexpCompileForHarness(re string) (*regexp.Regexp, error) { return regexp.Compile(re) }
