package gts

// C03 — Delete/Erase/Slice remove exactly the requested residues.
// Family B (location level): A.Expand(i,-n), n>0, deleting residues [i,i+n).

// vSurvivors: number of residues of the atoms outside [i,j).
func vCutLen(a vAtom, i, j int) int {
	lo := vMax(a.s, i)
	hi := vMin(a.e, j)
	return vIte(lo < hi, hi-lo, 0)
}

func vC03Loc(fam int, kinds int) {
	L := vIntIn("L", 1, vCap)
	A := vGenFamily("A", fam, L, kinds)
	i := vIntIn("i", 0, vCap)
	n := vIntIn("n", 1, vCap)
	vAssume(i+n <= L)
	j := i + n
	B := A.Expand(i, -n)
	as, bs := vAtoms(A), vAtoms(B)
	vCover("deleted")
	vAssert("in-range", vInRange(bs, L-n))
	// coverage: survivors keep their (re-based) position and strand, nothing else appears
	y := vIntIn("y", 0, vCap)
	vAssume(y < L-n)
	src := vIte(y < i, y, y+n)
	vAssert("cov-fwd", vCovS(bs, y, false) == vCovS(as, src, false))
	vAssert("cov-rev", vCovS(bs, y, true) == vCovS(as, src, true))
	// order of survivors
	y2 := vIntIn("y2", 0, vCap)
	vAssume(vAnd(y2 < L-n, y2 != y))
	src2 := vIte(y2 < i, y2, y2+n)
	both := vAnd(vCov(bs, y), vCov(bs, y2))
	vAssert("order", vImplies(both, (vFirst(bs, y) < vFirst(bs, y2)) == (vFirst(as, src) < vFirst(as, src2))))
	// a location that lost every residue sits at the cut as a zero-length site
	surv := 0
	for _, a := range as {
		surv += (a.e - a.s) - vCutLen(a, i, j)
	}
	lost := vAnd(vLenA(as) > 0, surv == 0)
	vAssert("emptied-is-site-at-cut", vImplies(lost, vAnd(vLenA(bs) == 0, vHasGap(bs, i))))
	// markers
	if len(as) == 1 && as[0].kind == vkRanged {
		a := as[0]
		gone := vAnd(i <= a.s, a.e <= j)
		if len(bs) == 1 && bs[0].kind == vkRanged {
			b := bs[0]
			vCover("ranged-survives")
			vAssert("not-gone", !gone)
			vAssert("marker5", b.p5 == vOr(a.p5, vAnd(i <= a.s, a.s < j)))
			vAssert("marker3", b.p3 == vOr(a.p3, vAnd(i < a.e, a.e <= j)))
		} else {
			vCover("ranged-gone")
			vAssert("gone", gone)
		}
	} else if len(as) == len(bs) {
		vCover("same-arity")
		for k := range as {
			a, b := as[k], bs[k]
			vAssert("strand-kept", a.rev == b.rev)
			if a.kind == vkRanged && b.kind == vkRanged {
				vAssert("marker5-part", b.p5 == vOr(a.p5, vAnd(i <= a.s, a.s < j)))
				vAssert("marker3-part", b.p3 == vOr(a.p3, vAnd(i < a.e, a.e <= j)))
			}
			if a.kind == vkBetween {
				vAssert("site-left-stays", vImplies(a.s < i, b.s == a.s))
				vAssert("site-right-moves", vImplies(a.s >= j, b.s == a.s-n))
			}
		}
	} else {
		vCover("arity-changed")
		// parts were merged/absorbed: only an unflagged, uncut outer end must stay unflagged
		f0, f1 := as[0], bs[0]
		if f0.kind == vkRanged && f1.kind == vkRanged && !f0.rev {
			vAssert("outer5-not-invented", vImplies(vAnd(f1.p5, f1.s == vIte(f0.s < i, f0.s, f0.s-n)), vOr(f0.p5, vAnd(i <= f0.s, f0.s < j))))
		}
	}
	vObserve("nb", len(bs))
	vObserve("b0.s", bs[0].s)
	vObserve("b0.e", bs[0].e)
}

//verif:harness prop=C03 quick=6 thorough=11
//verif:bounds location level: A.Expand(i,-n), n>=1, i+n<=L; quick shape families 0..5, thorough 0..10 (<=3 parts, depth 2); all coordinates, i, n, L symbolic in [0,2^40]
func VH_C03_delete_loc() {
	n := vFamS1
	if vTier() == 1 {
		n = vFamS2
	}
	vC03Loc(vShard(n), 4)
}
