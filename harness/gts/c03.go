package gts

// C03 — Delete/Erase/Slice remove exactly the requested residues.
// Family B (location level): A.Expand(i,-n), n>0, deleting residues [i,i+n).

// vSurvivors: number of residues of the atoms outside [i,j).
func vCutLen(a vAtom, i, j int) int {
	lo := vMax(a.s, i)
	hi := vMin(a.e, j)
	return vIte(lo < hi, hi-lo, 0)
}

func vC03Loc(fam int, kinds int) {
	L := vIntIn("L", 1, vCap)
	A := vGenFamily("A", fam, L, kinds)
	i := vIntIn("i", 0, vCap)
	n := vIntIn("n", 1, vCap)
	vAssume(i+n <= L)
	j := i + n
	B := A.Expand(i, -n)
	as, bs := vAtoms(A), vAtoms(B)
	vCover("deleted")
	vAssert("in-range", vInRange(bs, L-n))
	// coverage: survivors keep their (re-based) position and strand, nothing else appears
	y := vIntIn("y", 0, vCap)
	vAssume(y < L-n)
	src := vIte(y < i, y, y+n)
	vAssert("cov-fwd", vCovS(bs, y, false) == vCovS(as, src, false))
	vAssert("cov-rev", vCovS(bs, y, true) == vCovS(as, src, true))
	// order of survivors
	y2 := vIntIn("y2", 0, vCap)
	vAssume(vAnd(y2 < L-n, y2 != y))
	src2 := vIte(y2 < i, y2, y2+n)
	both := vAnd(vCov(bs, y), vCov(bs, y2))
	vAssert("order", vImplies(both, (vFirst(bs, y) < vFirst(bs, y2)) == (vFirst(as, src) < vFirst(as, src2))))
	// a location that lost every residue sits at the cut as a zero-length site
	surv := 0
	for _, a := range as {
		surv += (a.e - a.s) - vCutLen(a, i, j)
	}
	lost := vAnd(vLenA(as) > 0, surv == 0)
	vAssert("emptied-is-site-at-cut", vImplies(lost, vAnd(vLenA(bs) == 0, vHasGap(bs, i))))
	// markers
	if len(as) == 1 && as[0].kind == vkRanged {
		a := as[0]
		gone := vAnd(i <= a.s, a.e <= j)
		if len(bs) == 1 && bs[0].kind == vkRanged {
			b := bs[0]
			vCover("ranged-survives")
			vAssert("not-gone", !gone)
			vAssert("marker5", b.p5 == vOr(a.p5, vAnd(i <= a.s, a.s < j)))
			vAssert("marker3", b.p3 == vOr(a.p3, vAnd(i < a.e, a.e <= j)))
		} else {
			vCover("ranged-gone")
			vAssert("gone", gone)
		}
	} else if len(as) == len(bs) {
		vCover("same-arity")
		for k := range as {
			a, b := as[k], bs[k]
			vAssert("strand-kept", a.rev == b.rev)
			if a.kind == vkRanged && b.kind == vkRanged {
				vAssert("marker5-part", b.p5 == vOr(a.p5, vAnd(i <= a.s, a.s < j)))
				vAssert("marker3-part", b.p3 == vOr(a.p3, vAnd(i < a.e, a.e <= j)))
			}
			if a.kind == vkBetween {
				vAssert("site-left-stays", vImplies(a.s < i, b.s == a.s))
				vAssert("site-right-moves", vImplies(a.s >= j, b.s == a.s-n))
			}
		}
	} else {
		vCover("arity-changed")
		// parts were merged/absorbed: only an unflagged, uncut outer end must stay unflagged
		f0, f1 := as[0], bs[0]
		if f0.kind == vkRanged && f1.kind == vkRanged && !f0.rev {
			vAssert("outer5-not-invented", vImplies(vAnd(f1.p5, f1.s == vIte(f0.s < i, f0.s, f0.s-n)), vOr(f0.p5, vAnd(i <= f0.s, f0.s < j))))
		}
	}
	vObserve("nb", len(bs))
	vObserve("b0.s", bs[0].s)
	vObserve("b0.e", bs[0].e)
}

//verif:harness prop=C03 quick=6 thorough=11
//verif:bounds location level: A.Expand(i,-n), n>=1, i+n<=L; quick shape families 0..5, thorough 0..10 (<=3 parts, depth 2); all coordinates, i, n, L symbolic in [0,2^40]
func VH_C03_delete_loc() {
	n := vFamS1
	if vTier() == 1 {
		n = vFamS2
	}
	vC03Loc(vShard(n), 4)
}

// ---- Family A (API level): gts.Delete / gts.Erase / gts.Slice on sequences ---------------------

//verif:harness prop=C03 quick=6 thorough=12 merge=concrete timeout=1500 steps=250000000
//verif:bounds API level: sequence of 4 (quick) / 5 (thorough) symbolic residues, source + one tagged feature (range/point/between | 2-part join | complemented range | 2-part order; symbolic coordinates and flags); Delete and Erase for every (i,n) with i+n<=L; Slice for every window incl. wrap-around (e<s), empty windows and negative indices (quick: negative indices and the complement-strand source with the single-atom feature only)
func VH_C03_api() {
	sh := vShard(6 + 6*vTier())
	op := sh % 3 // 0 delete 1 erase 2 slice
	shape := (sh / 3) % 4
	L := 4 + vTier()
	data := vBytes("r", L)
	loc := vGenApiLoc("f", L, shape)
	ff := FeatureSlice{}
	var srcLoc Location = Range(0, L)
	if op == 2 && shape == 0 && vChoice("srcrev", 2) == 1 {
		srcLoc = srcLoc.Complement() // a source on the complement strand is made complete after slicing like any other
	}
	ff = ff.Insert(Feature{"source", srcLoc, Props{[]string{"tag", "src"}}})
	ff = ff.Insert(Feature{"gene", loc, Props{[]string{"tag", "f"}}})
	var src2 Location
	if op == 2 {
		// a second source feature (as Concat of two records produces)
		src2 = []Location{Range(0, 1), Range(L-1, L), Range(1, 3)}[vChoice("s2", 3)]
		ff = ff.Insert(Feature{"source", src2, Props{[]string{"tag", "src2"}}})
	}
	seq := Sequence(New(nil, ff, data))
	as := vAtoms(loc)
	x := vIntIn("x", 0, L)
	if op < 2 {
		i := vChoice("i", L+1)
		n := vChoice("n", L+1-i)
		var out Sequence
		if op == 0 {
			out = Delete(seq, i, n)
		} else {
			out = Erase(seq, i, n)
		}
		vCover("removed")
		got := out.Bytes()
		vAssert("length", len(got) == L-n)
		if len(got) != L-n {
			return
		}
		for k := 0; k < i; k++ {
			vAssert("prefix-kept", got[k] == data[k])
		}
		for k := i + n; k < L; k++ {
			vAssert("suffix-kept", got[k-n] == data[k])
		}
		f, cnt := vFindTagged(out.Features(), "f")
		_, nsrc := vFindTagged(out.Features(), "src")
		vAssert("source-kept", nsrc == 1)
		if op == 1 {
			// Erase drops a feature iff every part of it lies within the removed region
			within := true
			for _, a := range as {
				within = vAnd(within, vAnd(i <= a.s, a.e <= i+n))
			}
			vAssert("erase-drops-exactly-the-contained", (cnt == 0) == within)
		} else {
			vAssert("delete-keeps-every-feature", cnt == 1)
		}
		if cnt == 1 {
			bs := vAtoms(f.Loc)
			vAssert("in-range", vInRange(bs, L-n))
			vAssume(x < L-n)
			src := vIte(x < i, x, x+n)
			vAssert("survivors-fwd", vCovS(bs, x, false) == vCovS(as, src, false))
			vAssert("survivors-rev", vCovS(bs, x, true) == vCovS(as, src, true))
		}
		vObserve("outlen", len(got))
		return
	}
	// Slice: window given by (s,e), possibly negative, possibly wrapping
	s := vChoice("s", 2*L) - L  // -L .. L-1
	e := vChoice("e", 2*L+1) - L // -L .. L
	if shape != 0 && vTier() == 0 {
		// quick: negative indices with the single-atom shape only (they are resolved before anything looks at the features)
		vAssume(vAnd(s >= 0, e >= 0))
	}
	ns, ne := s, e
	if ns < 0 {
		ns += L
	}
	if ne < 0 {
		ne += L
	}
	var out Sequence
	p := vPanics(func() { out = Slice(seq, s, e) })
	vAssert("slice-no-panic", !p)
	if p {
		return
	}
	vCover("sliced")
	got := out.Bytes()
	// the window in input coordinates
	wlen := ne - ns
	if ne < ns {
		wlen = L - ns + ne
	}
	vAssert("window-length", len(got) == wlen)
	if len(got) != wlen {
		return
	}
	for k := 0; k < wlen; k++ {
		vAssert("window-residues", got[k] == data[(ns+k)%L])
	}
	f, cnt := vFindTagged(out.Features(), "f")
	// a feature that shares a residue with the window must be kept
	shares := false
	for k := 0; k < wlen; k++ {
		shares = vOr(shares, vCov(as, (ns+k)%L))
	}
	vAssert("overlapping-feature-kept", vImplies(shares, cnt == 1))
	vAssert("at-most-once", cnt <= 1)
	if cnt == 1 {
		bs := vAtoms(f.Loc)
		vAssert("in-range", vInRange(bs, wlen))
		vAssume(x < wlen)
		// residue x of the slice is input residue (ns+x) mod L
		srcpos := 0
		for k := 0; k < wlen; k++ {
			srcpos = vIte(x == k, (ns+k)%L, srcpos)
		}
		vAssert("window-feature-fwd", vCovS(bs, x, false) == vCovS(as, srcpos, false))
		vAssert("window-feature-rev", vCovS(bs, x, true) == vCovS(as, srcpos, true))
	}
	for _, g := range out.Features() {
		vAssert("every-location-inside-the-slice", vInRange(vAtoms(g.Loc), wlen))
		if g.Key == "source" {
			for _, a := range vAtoms(g.Loc) {
				vAssert("source-not-partial", vAnd(!a.p5, !a.p3))
			}
		}
	}
	// a feature (source or not) that shares no residue with the window and has no site inside it is dropped
	{
		s2 := vAtoms(src2)
		touches := false
		for k := 0; k <= wlen; k++ {
			pos := (ns + k) % L
			if k < wlen {
				touches = vOr(touches, vCov(s2, pos))
			}
		}
		f2, n2 := vFindTagged(out.Features(), "src2")
		if n2 == 1 && wlen > 0 {
			// a source that covers only part of the record is clipped and re-based like any feature
			b2 := vAtoms(f2.Loc)
			xx := vIntIn("xx", 0, L)
			vAssume(xx < wlen)
			sp := 0
			for k := 0; k < wlen; k++ {
				sp = vIte(xx == k, (ns+k)%L, sp)
			}
			vAssert("partial-source-follows-the-window", vCov(b2, xx) == vCov(s2, sp))
		}
		if ne >= ns {
			vAssert("non-overlapping-source-dropped", vImplies(vAnd(!touches, vOr(s2[0].e <= ns, ne <= s2[0].s)), n2 == 0))
		}
		vAssert("overlapping-source-kept", vImplies(touches, n2 == 1))
	}
	vAssert("argument-unchanged", len(seq.Bytes()) == L)
	vObserve("outlen", len(got))
}
