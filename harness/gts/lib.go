package gts

// Shared oracle vocabulary (DESIGN §3): atoms, pointwise denotation, shape
// generators.  Everything here is written with the non-forking helpers so an
// oracle stays a single path; it only inspects values the real code returned.

const vCap = 1 << 40 // cap on symbolic coordinates / lengths (bound of every claim)

const (
	vkRanged = iota
	vkPoint
	vkBetween
	vkAmbiguous
)

type vAtom struct {
	kind   int
	s, e   int // residues [s,e); Between g: s=e=g
	p5, p3 bool
	rev    bool
}

// vAtoms flattens a location into atoms in reading order.
func vAtoms(loc Location) []vAtom {
	switch v := loc.(type) {
	case Ranged:
		return []vAtom{{vkRanged, v.Start, v.End, v.Partial.Partial5, v.Partial.Partial3, false}}
	case Point:
		return []vAtom{{vkPoint, int(v), int(v) + 1, false, false, false}}
	case Between:
		return []vAtom{{vkBetween, int(v), int(v), false, false, false}}
	case Ambiguous:
		return []vAtom{{vkAmbiguous, v.Start, v.End, false, false, false}}
	case Joined:
		var out []vAtom
		for _, l := range v {
			out = append(out, vAtoms(l)...)
		}
		return out
	case Ordered:
		var out []vAtom
		for _, l := range v {
			out = append(out, vAtoms(l)...)
		}
		return out
	case Complemented:
		in := vAtoms(v.Location)
		out := make([]vAtom, len(in))
		for i := range in {
			a := in[len(in)-1-i]
			a.rev = !a.rev
			out[i] = a
		}
		return out
	}
	panic("vAtoms: unknown location kind (nil element?)")
}

// vCov: residue x is denoted by some atom.
func vCov(as []vAtom, x int) bool {
	c := false
	for _, a := range as {
		c = vOr(c, vAnd(a.s <= x, x < a.e))
	}
	return c
}

// vCovS: residue x is denoted on the given strand.
func vCovS(as []vAtom, x int, rev bool) bool {
	c := false
	for _, a := range as {
		c = vOr(c, vAnd(a.rev == rev, vAnd(a.s <= x, x < a.e)))
	}
	return c
}

// vMult: how many atoms denote residue x.
func vMult(as []vAtom, x int) int {
	n := 0
	for _, a := range as {
		n += vIte(vAnd(a.s <= x, x < a.e), 1, 0)
	}
	return n
}

// vLenA: number of denoted residues (with multiplicity).
func vLenA(as []vAtom) int {
	n := 0
	for _, a := range as {
		n += a.e - a.s
	}
	return n
}

// vRes: position of the t-th residue in reading order (-1 if t out of range) and its strand.
func vRes(as []vAtom, t int) (int, bool) {
	pos, rev := -1, false
	off := 0
	for _, a := range as {
		n := a.e - a.s
		in := vAnd(off <= t, t < off+n)
		p := vIte(a.rev, a.e-1-(t-off), a.s+(t-off))
		pos = vIte(in, p, pos)
		rev = vIteB(in, a.rev, rev)
		off += n
	}
	return pos, rev
}

// vFirst: reading-order index of the first occurrence of residue x (large if not covered).
func vFirst(as []vAtom, x int) int {
	res := 4 * vCap
	off := 0
	for _, a := range as {
		n := a.e - a.s
		in := vAnd(a.s <= x, x < a.e)
		idx := off + vIte(a.rev, a.e-1-x, x-a.s)
		res = vIte(vAnd(in, res == 4*vCap), idx, res)
		off += n
	}
	return res
}

// vDisjoint: no residue is denoted twice.
func vDisjoint(as []vAtom) bool {
	ok := true
	for i := range as {
		for j := i + 1; j < len(as); j++ {
			ok = vAnd(ok, vOr(as[i].e <= as[j].s, as[j].e <= as[i].s))
		}
	}
	return ok
}

// vInRange: every coordinate of every atom lies in [0,L] (residues in [0,L)).
func vInRange(as []vAtom, L int) bool {
	ok := true
	for _, a := range as {
		ok = vAnd(ok, vAnd(0 <= a.s, a.e <= L))
		ok = vAnd(ok, a.s <= a.e)
	}
	return ok
}

// vHasGap: some Between atom sits at gap g.
func vHasGap(as []vAtom, g int) bool {
	c := false
	for _, a := range as {
		if a.kind == vkBetween {
			c = vOr(c, a.s == g)
		}
	}
	return c
}

func vCountKind(as []vAtom, kind int) int {
	n := 0
	for _, a := range as {
		if a.kind == kind {
			n++
		}
	}
	return n
}

// ---- generators ---------------------------------------------------------------

// vGenAtom builds one atom through the public constructors; kinds limits the
// choice (4 = ranged, point, between, ambiguous; 3 = without ambiguous).
func vGenAtom(name string, L int, kinds int) Location {
	switch vChoice(name+".k", kinds) {
	case 0:
		s := vIntIn(name+".s", 0, vCap)
		e := vIntIn(name+".e", 0, vCap)
		vAssume(vAnd(s < e, e <= L))
		return PartialRange(s, e, Partial{vBool(name + ".p5"), vBool(name + ".p3")})
	case 1:
		p := vIntIn(name+".p", 0, vCap)
		vAssume(p < L)
		return Point(p)
	case 2:
		g := vIntIn(name+".g", 0, vCap)
		vAssume(g <= L)
		return Between(g)
	default:
		s := vIntIn(name+".s", 0, vCap)
		e := vIntIn(name+".e", 0, vCap)
		vAssume(vAnd(s < e, e <= L))
		return Ambiguous{s, e}
	}
}

// vGenParts builds n atoms.
func vGenParts(name string, n int, L int, kinds int) []Location {
	parts := make([]Location, n)
	for i := range parts {
		parts[i] = vGenAtom(name+string(rune('a'+i)), L, kinds)
	}
	return parts
}

// Shape families (top-level, selected by shard index):
//   0 atom  1 join(2)  2 order(2)  3 complement(atom)  4 complement(join(2))  5 complement(order(2))
//   6 join(3)  7 order(3)  8 complement(join(3))  9 join(complement(a),complement(b))
//   10 order(join(2), atom)  11 join(4)  12 join(5)  13 order(5) 14 complement(order(3)) 15 order(4)
//   16 join(complement(a),complement(join(b,c)))  17 join(complement(join(a,b)),complement(c))  18 order(complement(join(a,b)),c)
//   19 order(order(a,b),c)  20 order(join(a,b),c)
const (
	vFamS1 = 6
	vFamS2 = 11
	vFamS3 = 16
	vFamS4 = 21
)

func vGenFamily(name string, fam int, L int, kinds int) Location {
	switch fam {
	case 0:
		return vGenAtom(name, L, kinds)
	case 1:
		return Join(vGenParts(name, 2, L, kinds)...)
	case 2:
		return Order(vGenParts(name, 2, L, kinds)...)
	case 3:
		return vGenAtom(name, L, kinds).Complement()
	case 4:
		return Join(vGenParts(name, 2, L, kinds)...).Complement()
	case 5:
		return Order(vGenParts(name, 2, L, kinds)...).Complement()
	case 6:
		return Join(vGenParts(name, 3, L, kinds)...)
	case 7:
		return Order(vGenParts(name, 3, L, kinds)...)
	case 8:
		return Join(vGenParts(name, 3, L, kinds)...).Complement()
	case 9:
		p := vGenParts(name, 2, L, kinds)
		return Join(p[0].Complement(), p[1].Complement())
	case 10:
		p := vGenParts(name, 3, L, kinds)
		return Order(Join(p[0], p[1]), p[2])
	case 11:
		return Join(vGenParts(name, 4, L, kinds)...)
	case 12:
		return Join(vGenParts(name, 5, L, kinds)...)
	case 13:
		return Order(vGenParts(name, 5, L, kinds)...)
	case 14:
		return Order(vGenParts(name, 3, L, kinds)...).Complement()
	case 15:
		return Order(vGenParts(name, 4, L, kinds)...)
	case 16:
		p := vGenParts(name, 3, L, kinds)
		return Join(p[0].Complement(), Join(p[1], p[2]).Complement())
	case 17:
		p := vGenParts(name, 3, L, kinds)
		return Join(Join(p[0], p[1]).Complement(), p[2].Complement())
	case 18:
		p := vGenParts(name, 3, L, kinds)
		return Order(Join(p[0], p[1]).Complement(), p[2])
	case 19:
		p := vGenParts(name, 3, L, kinds)
		return Order(Order(p[0], p[1]), p[2]) // a nested order that is not in the last position
	default:
		p := vGenParts(name, 3, L, kinds)
		return Order(Join(p[0], p[1]), p[2])
	}
}
