package gts

// C06 — reduction keeps the denotation: Join(parts...) / Order(parts...).

func vC06Reduce(nparts int, kinds int, order bool, compl bool) {
	L := vIntIn("L", 1, vCap)
	parts := vGenParts("P", nparts, L, kinds)
	var in []vAtom
	if compl {
		for k := range parts {
			parts[k] = parts[k].Complement()
		}
	}
	for _, p := range parts {
		in = append(in, vAtoms(p)...)
	}
	var out Location
	if order {
		out = Order(parts...)
	} else {
		out = Join(parts...)
	}
	os := vAtoms(out)
	vCover("reduced")
	x := vIntIn("x", 0, vCap)
	vAssume(x < L)
	vAssert("cov-fwd", vCovS(in, x, false) == vCovS(os, x, false))
	vAssert("cov-rev", vCovS(in, x, true) == vCovS(os, x, true))
	x2 := vIntIn("x2", 0, vCap)
	vAssume(vAnd(x2 < L, x2 != x))
	both := vAnd(vCov(in, x), vCov(in, x2))
	if !compl {
		vAssert("order", vImplies(both, (vFirst(in, x) < vFirst(in, x2)) == (vFirst(os, x) < vFirst(os, x2))))
	}
	vAssert("arity-not-grown", len(os) <= len(in))
	// markers: reduction never invents a marker
	i5, i3 := vMarkerCounts(in)
	o5, o3 := vMarkerCounts(os)
	vAssert("marker-count", vAnd(o5 <= i5, o3 <= i3))
	vObserve("no", len(os))
	vObserve("o0.s", os[0].s)
	vObserve("o0.e", os[0].e)
}

//verif:harness prop=C06 quick=4 thorough=10
//verif:bounds Join/Order of 2..3 (quick) / 2..5 (thorough) atoms of all four kinds (5 parts: three kinds), plain and complemented; coordinates and L symbolic in [0,2^40]
func VH_C06_reduction() {
	n := 4
	if vTier() == 1 {
		n = 10
	}
	switch vShard(n) {
	case 0:
		vC06Reduce(2, 4, false, false)
	case 1:
		vC06Reduce(2, 4, true, false)
	case 2:
		vC06Reduce(3, 4, false, false)
	case 3:
		vC06Reduce(2, 4, false, true)
	case 4:
		vC06Reduce(3, 4, true, false)
	case 5:
		vC06Reduce(3, 4, false, true)
	case 6:
		vC06Reduce(4, 4, false, false)
	case 7:
		vC06Reduce(4, 3, true, false)
	case 8:
		vC06Reduce(5, 3, false, false)
	default:
		vC06Reduce(4, 3, false, true)
	}
}
