package gts

// C06 — reduction keeps the denotation: Join(parts...) / Order(parts...).

func vC06Reduce(nparts int, kinds int, order bool, compl bool) {
	L := vIntIn("L", 1, vCap)
	parts := vGenParts("P", nparts, L, kinds)
	var in []vAtom
	if compl {
		for k := range parts {
			parts[k] = parts[k].Complement()
		}
	}
	for _, p := range parts {
		in = append(in, vAtoms(p)...)
	}
	if vNestFirst && nparts >= 3 {
		// the first two parts arrive already combined (a nested order / join that is not in the last position)
		var inner Location
		if order {
			inner = Order(parts[0], parts[1])
		} else {
			inner = Join(parts[0], parts[1])
		}
		parts = append([]Location{inner}, parts[2:]...)
	}
	var out Location
	if order {
		out = Order(parts...)
	} else {
		out = Join(parts...)
	}
	os := vAtoms(out)
	vCover("reduced")
	x := vIntIn("x", 0, vCap)
	vAssume(x < L)
	vAssert("cov-fwd", vCovS(in, x, false) == vCovS(os, x, false))
	vAssert("cov-rev", vCovS(in, x, true) == vCovS(os, x, true))
	x2 := vIntIn("x2", 0, vCap)
	vAssume(vAnd(x2 < L, x2 != x))
	both := vAnd(vCov(in, x), vCov(in, x2))
	if !compl {
		vAssert("order", vImplies(both, (vFirst(in, x) < vFirst(in, x2)) == (vFirst(os, x) < vFirst(os, x2))))
	}
	vAssert("arity-not-grown", len(os) <= len(in))
	// ranges are only ever merged when they abut: a residue denoted twice by overlapping ranges
	// (join(1..5,5..8)) stays denoted twice; duplicates are dropped only for points and sites
	allRanged := true
	for _, a := range in {
		if a.kind != vkRanged {
			allRanged = false
		}
	}
	if allRanged {
		vAssert("ranges-keep-multiplicity", vLenA(os) == vLenA(in))
	}
	// markers: reduction never invents a marker
	i5, i3 := vMarkerCounts(in)
	o5, o3 := vMarkerCounts(os)
	vAssert("marker-count", vAnd(o5 <= i5, o3 <= i3))
	vObserve("no", len(os))
	vObserve("o0.s", os[0].s)
	vObserve("o0.e", os[0].e)
}

var vNestFirst bool

//verif:harness prop=C06 quick=6 thorough=12
//verif:bounds Join/Order of 2..3 (quick) / 2..5 (thorough) atoms of all four kinds (5 parts: three kinds), plain and complemented, and with the first two parts pre-combined into a nested order/join; coordinates and L symbolic in [0,2^40]
func VH_C06_reduction() {
	n := 4
	if vTier() == 1 {
		n = 10
	}
	sh := vShard(n + 2)
	if sh >= n {
		vNestFirst = true
		vC06Reduce(3, 4, sh == n, false)
		return
	}
	switch sh {
	case 0:
		vC06Reduce(2, 4, false, false)
	case 1:
		vC06Reduce(2, 4, true, false)
	case 2:
		vC06Reduce(3, 4, false, false)
	case 3:
		vC06Reduce(2, 4, false, true)
	case 4:
		vC06Reduce(3, 4, true, false)
	case 5:
		vC06Reduce(3, 4, false, true)
	case 6:
		vC06Reduce(4, 4, false, false)
	case 7:
		vC06Reduce(4, 3, true, false)
	case 8:
		vC06Reduce(5, 3, false, false)
	default:
		vC06Reduce(4, 3, false, true)
	}
}

// ---- text: print -> parse ---------------------------------------------------------

func vC06PrintParse(fam int, kinds int, cap int) {
	L := vIntIn("L", 1, cap)
	A := vGenFamily("A", fam, L, kinds)
	s := A.String()
	vCover("printed")
	var B Location
	var err error
	if vPanics(func() { B, err = AsLocation(s) }) {
		vAssert("parse-no-panic", false)
		return
	}
	vAssert("parse-accepts-printed", err == nil)
	if err != nil {
		return
	}
	as, bs := vAtoms(A), vAtoms(B)
	vAssert("same-atoms", vSameAtoms(as, bs))
	s2 := B.String()
	vAssert("prints-identically", s2 == s)
	vObserve("len", len(s))
}

//verif:harness prop=C06 quick=12 thorough=16 merge=concrete
//verif:bounds print->parse: constructor-built locations, every partial combination; quick: atoms with coordinates in [0,999], 2-part families 1..5 and the nested families 16..20 (complement of a join inside a join/order, order inside order, join inside order; ranged/point parts) and the 3-part join of all four kinds, with coordinates in [0,8] (one digit); thorough: atoms in [0,99999], 2-part families in [0,99], 3-part families 6..10 and nested 16..20 in [0,8]; String() via the decimal-digit model, AsLocation via the real pars parser
func VH_C06_print_parse() {
	// families per shard; quick: atoms and 2-part shapes, the nested shapes, and the 3-part join
	quick := []int{0, 1, 2, 3, 4, 5, 16, 17, 18, 19, 20, 6}
	thorough := []int{0, 1, 2, 3, 4, 5, 6, 7, 8, 9, 10, 16, 17, 18, 19, 20}
	fams := quick
	if vTier() == 1 {
		fams = thorough
	}
	fam := fams[vShard(len(fams))]
	if fam >= 16 {
		vC06PrintParse(fam, 2, 8)
		return
	}
	cap := 8
	switch {
	case fam == 0 || fam == 3:
		cap = 999 + 99000*vTier()
	case fam < 6:
		cap = 8 + 91*vTier()
	}
	vC06PrintParse(fam, 4, cap)
}

// ---- text: parse -> print is a fixed point -------------------------------------------

// vLocAlphabet constrains a byte to the location alphabet (digits, punctuation of the
// grammar, space, the letters of join/order/complement, and 'x' standing for anything else).
func vLocAlphabet(c byte) bool {
	ok := vAnd('0' <= c, c <= '9')
	for _, a := range []byte("<>.^,()+- joinrdecmplt" + "x") {
		ok = vOr(ok, c == a)
	}
	return ok
}

func vC06FixedPoint(s string) {
	var v Location
	var err error
	if vPanics(func() { v, err = AsLocation(s) }) {
		vAssert("parse-no-panic", false)
		return
	}
	if err != nil {
		vCover("rejected")
		return
	}
	vCover("accepted")
	var s2 string
	if vPanics(func() { s2 = v.String() }) {
		vAssert("print-no-panic", false)
		return
	}
	var v2 Location
	var err2 error
	if vPanics(func() { v2, err2 = AsLocation(s2) }) {
		vAssert("reparse-no-panic", false)
		return
	}
	vAssert("reparse-accepts", err2 == nil)
	if err2 != nil {
		return
	}
	vAssert("fixed-point", v2.String() == s2)
	vAssert("same-atoms", vSameAtoms(vAtoms(v), vAtoms(v2)))
	vObserve("len2", len(s2))
}

//verif:harness prop=C06 quick=4 thorough=6 merge=concrete
//verif:bounds parse->print fixed point: every string of length 1..4 (quick) / 1..6 (thorough) over the location alphabet (all bytes symbolic)
func VH_C06_parse_print_free() {
	n := 4
	if vTier() == 1 {
		n = 6
	}
	k := 1 + vShard(n)
	b := vBytes("s", k)
	for _, c := range b {
		vAssume(vLocAlphabet(c))
	}
	vC06FixedPoint(string(b))
}

//verif:harness prop=C06 quick=6 thorough=6 merge=concrete
//verif:bounds parse->print fixed point on templates join(H,H) order(H,H) complement(H) complement(join(H,H)) H..H> <H..>H with 1..2 (quick) / 1..3 (thorough) symbolic alphabet bytes per hole H
func VH_C06_parse_print_templates() {
	max := 2 + vTier()
	hole := func(name string) string {
		k := 1 + vChoice(name+".n", max)
		b := vBytes(name, k)
		for _, c := range b {
			vAssume(vLocAlphabet(c))
		}
		return string(b)
	}
	var s string
	switch vShard(6) {
	case 0:
		s = "join(" + hole("a") + "," + hole("b") + ")"
	case 1:
		s = "order(" + hole("a") + "," + hole("b") + ")"
	case 2:
		s = "complement(" + hole("a") + ")"
	case 3:
		s = "complement(join(" + hole("a") + "," + hole("b") + "))"
	case 4:
		s = hole("a") + ".." + hole("b") + ">"
	default:
		s = "<" + hole("a") + "..>" + hole("b")
	}
	vC06FixedPoint(s)
}
