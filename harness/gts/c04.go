package gts

// C04 — Rotate is a pure change of origin.  Location level with symbolic L:
// Rotate applies loc.Expand(0,n).Normalize(L) with n already reduced to [0,L).

func vRotMap(x, n, L int) int { return vIte(x+n < L, x+n, x+n-L) }

func vC04Loc(fam int, kinds int) {
	L := vIntIn("L", 1, vCap)
	A := vGenFamily("A", fam, L, kinds)
	n := vIntIn("n", 0, vCap)
	vAssume(n < L)
	as := vAtoms(A)
	// ambiguous spans only when they do not cross the new origin (quantifier of C04)
	full := false
	for _, a := range as {
		if a.kind == vkAmbiguous {
			// the origin moves to old position L-n; the span [s,e) must not contain it strictly inside
			vAssume(vOr(n == 0, vOr(a.e <= L-n, L-n <= a.s)))
		}
		full = vOr(full, a.e-a.s == L)
	}
	B := A.Expand(0, n).Normalize(L)
	bs := vAtoms(B)
	vCover("rotated")
	vAssert("in-range", vInRange(bs, L))
	x := vIntIn("x", 0, vCap)
	vAssume(x < L)
	mx := vRotMap(x, n, L)
	vAssert("cov-fwd", vCovS(as, x, false) == vCovS(bs, mx, false))
	vAssert("cov-rev", vCovS(as, x, true) == vCovS(bs, mx, true))
	x2 := vIntIn("x2", 0, vCap)
	vAssume(vAnd(x2 < L, x2 != x))
	mx2 := vRotMap(x2, n, L)
	both := vAnd(vCov(as, x), vCov(as, x2))
	// a full-length part keeps its extent 1..L, so reading order is compared only without one
	vAssert("order", vImplies(vAnd(both, !full), (vFirst(as, x) < vFirst(as, x2)) == (vFirst(bs, mx) < vFirst(bs, mx2))))
	a5, a3 := vMarkerCounts(as)
	b5, b3 := vMarkerCounts(bs)
	// abutting parts may merge across the old origin (inner markers vanish); markers are never invented
	vAssert("marker-count", vAnd(b5 <= a5, b3 <= a3))
	if len(as) == 1 {
		vAssert("marker-count-atom", vAnd(a5 == b5, a3 == b3))
	}
	if len(as) == 1 && as[0].kind == vkRanged {
		a := as[0]
		if len(bs) == 1 {
			vCover("ranged-whole")
			vAssert("markers-kept", vAnd(bs[0].p5 == a.p5, bs[0].p3 == a.p3))
			vAssert("full-stays-full", vImplies(a.e-a.s == L, vAnd(bs[0].s == 0, bs[0].e == L)))
		} else {
			vCover("ranged-split")
			vAssert("split-in-two", len(bs) == 2)
			// reads across the origin: first piece ends at L, second starts at 0, markers on the outer ends
			first, second := bs[0], bs[1]
			if a.rev {
				first, second = bs[1], bs[0] // reverse strand: atoms are listed in reading order, coordinates descend
			}
			vAssert("reads-across-origin", vAnd(first.e == L, second.s == 0))
			vAssert("outer-markers", vAnd(vAnd(first.p5 == a.p5, second.p3 == a.p3), vAnd(!first.p3, !second.p5)))
		}
	}
	vObserve("nb", len(bs))
	vObserve("b0.s", bs[0].s)
	vObserve("b0.e", bs[0].e)
}

//verif:harness prop=C04 quick=6 thorough=11
//verif:bounds location level with symbolic L<=2^40: A.Expand(0,n).Normalize(L), 0<=n<L (Rotate's own reduction of n is checked at API level); quick families 0..5, thorough 0..10
//verif:assume ambiguous spans do not cross the new origin (C04's quantifier); symbolic modulus encoded with a bounded quotient K=8 plus a discharged range obligation
func VH_C04_rotate_loc() {
	n := vFamS1
	if vTier() == 1 {
		n = vFamS2
	}
	vC04Loc(vShard(n), 4)
}
