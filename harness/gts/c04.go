package gts

// C04 — Rotate is a pure change of origin.  Location level with symbolic L:
// Rotate applies loc.Expand(-1,n).Normalize(L) with n already reduced to [0,L).

func vRotMap(x, n, L int) int { return vIte(x+n < L, x+n, x+n-L) }

func vC04Loc(fam int, kinds int) {
	L := vIntIn("L", 1, vCap)
	A := vGenFamily("A", fam, L, kinds)
	n := vIntIn("n", 0, vCap)
	vAssume(n < L)
	as := vAtoms(A)
	// ambiguous spans only when they do not cross the new origin (quantifier of C04)
	full := false
	for _, a := range as {
		if a.kind == vkAmbiguous {
			// the origin moves to old position L-n; the span [s,e) must not contain it strictly inside
			vAssume(vOr(n == 0, vOr(a.e <= L-n, L-n <= a.s)))
		}
		full = vOr(full, a.e-a.s == L)
	}
	B := A.Expand(-1, n).Normalize(L) // what Rotate applies to every feature location
	bs := vAtoms(B)
	vCover("rotated")
	vAssert("in-range", vInRange(bs, L))
	x := vIntIn("x", 0, vCap)
	vAssume(x < L)
	mx := vRotMap(x, n, L)
	vAssert("cov-fwd", vCovS(as, x, false) == vCovS(bs, mx, false))
	vAssert("cov-rev", vCovS(as, x, true) == vCovS(bs, mx, true))
	x2 := vIntIn("x2", 0, vCap)
	vAssume(vAnd(x2 < L, x2 != x))
	mx2 := vRotMap(x2, n, L)
	both := vAnd(vCov(as, x), vCov(as, x2))
	// a full-length part keeps its extent 1..L, so reading order is compared only without one
	vAssert("order", vImplies(vAnd(both, !full), (vFirst(as, x) < vFirst(as, x2)) == (vFirst(bs, mx) < vFirst(bs, mx2))))
	a5, a3 := vMarkerCounts(as)
	b5, b3 := vMarkerCounts(bs)
	// abutting parts may merge across the old origin (inner markers vanish); markers are never invented
	vAssert("marker-count", vAnd(b5 <= a5, b3 <= a3))
	if len(as) == 1 {
		vAssert("marker-count-atom", vAnd(a5 == b5, a3 == b3))
	}
	if len(as) == 1 && as[0].kind == vkRanged {
		a := as[0]
		if len(bs) == 1 {
			vCover("ranged-whole")
			vAssert("markers-kept", vAnd(bs[0].p5 == a.p5, bs[0].p3 == a.p3))
			vAssert("full-stays-full", vImplies(a.e-a.s == L, vAnd(bs[0].s == 0, bs[0].e == L)))
		} else {
			vCover("ranged-split")
			vAssert("split-in-two", len(bs) == 2)
			// reads across the origin: first piece ends at L, second starts at 0, markers on the outer ends
			first, second := bs[0], bs[1]
			if a.rev {
				first, second = bs[1], bs[0] // reverse strand: atoms are listed in reading order, coordinates descend
			}
			vAssert("reads-across-origin", vAnd(first.e == L, second.s == 0))
			vAssert("outer-markers", vAnd(vAnd(first.p5 == a.p5, second.p3 == a.p3), vAnd(!first.p3, !second.p5)))
		}
	}
	if vSameKinds(as, bs) {
		// a site between two residues moves with them; g=0 and g=L both spell the origin site
		// (parts correspond one to one when nothing was split or absorbed)
		for k := range as {
			if as[k].kind == vkBetween {
				vAssert("site-moved", vSiteMod(bs[k].s, L) == vSiteMod(as[k].s+n, L))
			}
		}
	}
	vObserve("nb", len(bs))
	vObserve("b0.s", bs[0].s)
	vObserve("b0.e", bs[0].e)
}

// vSameKinds: the two atom lists have the same kinds position by position.
func vSameKinds(a, b []vAtom) bool {
	if len(a) != len(b) {
		return false
	}
	for k := range a {
		if a[k].kind != b[k].kind {
			return false
		}
	}
	return true
}

// vSiteMod reduces a site position in [0,2L] to [0,L): position L is the origin site 0.
func vSiteMod(g, L int) int {
	g = vIte(g >= L, g-L, g)
	return vIte(g >= L, g-L, g)
}

//verif:harness prop=C04 quick=6 thorough=11
//verif:bounds location level with symbolic L<=2^40: A.Expand(-1,n).Normalize(L), 0<=n<L (Rotate's own reduction of n is checked at API level); quick families 0..5, thorough 0..10
//verif:assume ambiguous spans do not cross the new origin (C04's quantifier); symbolic modulus encoded with a bounded quotient K=8 plus a discharged range obligation
func VH_C04_rotate_loc() {
	n := vFamS1
	if vTier() == 1 {
		n = vFamS2
	}
	vC04Loc(vShard(n), 4)
}

// ---- API level: gts.Rotate on a sequence --------------------------------------------------

func vMod(x, L int) int { // x mod L for x in [-4L, 4L], non-negative result
	r := x
	for k := 0; k < 4; k++ {
		r = vIte(r < 0, r+L, r)
	}
	for k := 0; k < 4; k++ {
		r = vIte(r >= L, r-L, r)
	}
	return r
}

func vGenApiLoc(name string, L int, shape int) Location {
	switch shape {
	case 0:
		return vGenAtom(name, L, 3)
	case 1:
		return Join(vGenParts(name, 2, L, 1)...)
	case 2:
		return vGenAtom(name, L, 1).Complement()
	default:
		return Order(vGenParts(name, 2, L, 2)...)
	}
}

//verif:harness prop=C04 quick=4 thorough=12 timeout=2400 merge=concrete
//verif:bounds API level: gts.Rotate on sequences of length L in {2,3} (quick) / 1..6 (thorough; shape per length as listed in the harness table) with symbolic residues, every n in [-3L,3L] (enumerated), one feature (range/point/between | 2-part join | complemented range | 2-part order) with symbolic coordinates, keyed gene or source, plus a full-length source: residues move to (k+n) mod L, the feature denotes the same residues, rotations compose additively and Rotate(-n) undoes Rotate(n)
func VH_C04_rotate_api() {
	// (L, shape) per shard; shape 0 atom (range/point/between), 1 2-part join, 2 complemented range, 3 2-part order
	table := [][2]int{{2, 0}, {3, 0}, {3, 2}, {2, 1}, {1, 0}, {4, 0}, {4, 2}, {3, 1}, {2, 3}, {5, 0}, {3, 3}, {6, 2}}
	ns := 4 + 8*vTier()
	pick := table[vShard(ns)]
	L, shape := pick[0], pick[1]
	data := vBytes("r", L)
	loc := vGenApiLoc("f", L, shape%4)
	ff := FeatureSlice{}
	ff = ff.Insert(Feature{"source", Range(0, L), vFeatTag(0)})
	// the feature may itself be keyed source: a chimeric record has sources shorter than the sequence
	fkey := []string{"gene", "source"}[vChoice("key", 2)]
	ff = ff.Insert(Feature{fkey, loc, vFeatTag(1)})
	seq := New(nil, ff, data)
	n := vChoice("n", 6*L+1) - 3*L // every n in [-3L,3L] (concrete per path: Rotate slices by it)
	out := Rotate(seq, n)
	vCover("rotated")
	got := out.Bytes()
	vAssert("length", len(got) == L)
	for k := 0; k < L; k++ {
		// residue k moves to (k+n) mod L
		idx := vMod(k+n, L)
		sel := -1
		for j := range got {
			sel = vIte(idx == j, int(got[j]), sel)
		}
		vAssert("residue-moved", sel == int(data[k]))
	}
	vAssert("arg-unchanged", len(seq.Bytes()) == L)
	as := vAtoms(loc)
	var bs []vAtom
	cnt := 0
	for _, f := range out.Features() {
		if f.Props[0][1] == "1" {
			bs = vAtoms(f.Loc)
			cnt++
		} else {
			sa := vAtoms(f.Loc)
			vAssert("full-length-stays", vAnd(len(sa) == 1, vAnd(sa[0].s == 0, sa[0].e == L)))
		}
	}
	vAssert("feature-present-once", cnt == 1)
	if cnt != 1 {
		return
	}
	vAssert("in-range", vInRange(bs, L))
	x := vIntIn("x", 0, L)
	vAssume(x < L)
	mx := vMod(x+n, L)
	vAssert("cov-fwd", vCovS(as, x, false) == vCovS(bs, mx, false))
	vAssert("cov-rev", vCovS(as, x, true) == vCovS(bs, mx, true))
	// additive composition and inverse, on residues and coverage
	b := []int{-1, 1, L}[vChoice("b", 3)]
	two := Rotate(out, b)
	one := Rotate(seq, n+b)
	for j := 0; j < L; j++ {
		vAssert("additive-residues", two.Bytes()[j] == one.Bytes()[j])
	}
	var t2, t1 []vAtom
	for _, f := range two.Features() {
		if f.Props[0][1] == "1" {
			t2 = vAtoms(f.Loc)
		}
	}
	for _, f := range one.Features() {
		if f.Props[0][1] == "1" {
			t1 = vAtoms(f.Loc)
		}
	}
	vAssert("additive-coverage", vAnd(vCovS(t2, x, false) == vCovS(t1, x, false), vCovS(t2, x, true) == vCovS(t1, x, true)))
	if vSameKinds(t1, t2) {
		for k := range t1 {
			if t1[k].kind == vkBetween {
				vAssert("additive-sites", vSiteMod(t2[k].s, L) == vSiteMod(t1[k].s, L))
			}
		}
	}
	if vSameKinds(as, bs) {
		for k := range as {
			if as[k].kind == vkBetween {
				vAssert("site-moved", vSiteMod(bs[k].s, L) == vMod(as[k].s+n, L))
			}
		}
	}
	vObserve("nb", len(bs))
}
