package gts

// C07 — parsers are total (package gts entry points).

func vTotal(name string, f func() error) {
	var err error
	p := vPanics(func() { err = f() })
	vAssert(name+"-no-panic", !p)
	if p {
		return
	}
	if err != nil {
		vCover(name + "-rejects")
	} else {
		vCover(name + "-accepts")
	}
}

//verif:harness prop=C07 quick=5 thorough=30 merge=concrete timeout=1500
//verif:bounds every byte string of length 0..4 (quick) / 0..9 (thorough; lengths 6..9 one entry point per shard), all bytes fully symbolic (256 values each), as input to AsLocation, AsModifier, AsLocator (incl. Selector), AsMolecule, AsTopology
//verif:assume regexp.Compile on a symbolic pattern succeeds or fails nondeterministically; MatchString is an uninterpreted predicate
func VH_C07_gts_strings() {
	n := 5
	if vTier() == 1 {
		n = 30
	}
	sh := vShard(n)
	k, only := sh, -1
	if sh >= 6 {
		k, only = 6+(sh-6)/6, (sh-6)%6
	}
	s := string(vBytes("s", k))
	fns := []struct {
		name string
		f    func() error
	}{
		{"location", func() error { _, err := AsLocation(s); return err }},
		{"modifier", func() error { _, err := AsModifier(s); return err }},
		{"locator", func() error { _, err := AsLocator(s); return err }},
		{"selector", func() error { _, err := Selector(s); return err }},
		{"molecule", func() error { _, err := AsMolecule(s); return err }},
		{"topology", func() error { _, err := AsTopology(s); return err }},
	}
	for i, fn := range fns {
		if only < 0 || only == i {
			vTotal(fn.name, fn.f)
		}
	}
	vObserve("k", k)
}

//verif:harness prop=C07 quick=4 thorough=8 merge=concrete timeout=1500 steps=300000000
//verif:bounds AsLocation on three-part templates join(P,P,P) | order(P,P,P) | complement(join(P,P,P)) | join(P,complement(P),P) (thorough: also the four-part join(P,P,P,P) with the last part one of two kinds) where every part P is one of d | d^d | d..d | <d..>d (chosen independently) and every d is a symbolic decimal digit: the parser and the reduction it runs (Join/Order: merging, absorbing, re-reducing until stable) end, without panic, for every such string
//verif:assume termination is decided by the engine's per-path step bound (20,000,000 instructions; a path past it is replayed natively: a hang is the violation)
func VH_C07_location_templates() {
	sh := vShard(4 + 4*vTier())
	digit := func(name string) string { return string(vBytesIn(name, 1, '0', '9')) }
	part := func(name string, kinds int) string {
		switch vChoice(name+".k", kinds) {
		case 0:
			return digit(name + "a")
		case 1:
			return digit(name+"a") + "^" + digit(name+"b")
		case 2:
			return digit(name+"a") + ".." + digit(name+"b")
		default:
			return "<" + digit(name+"a") + "..>" + digit(name+"b")
		}
	}
	a, b, c := part("a", 4), part("b", 4), part("c", 4)
	if sh%4 == 3 {
		b = "complement(" + b + ")"
	}
	list := a + "," + b + "," + c
	if sh >= 4 {
		list += "," + part("d", 2)
	}
	var s string
	switch sh % 4 {
	case 1:
		s = "order(" + list + ")"
	case 2:
		s = "complement(join(" + list + "))"
	default:
		s = "join(" + list + ")"
	}
	vTotal("location", func() error { _, err := AsLocation(s); return err })
	vObserve("len", len(s))
}
