package gts

// C07 — parsers are total (package gts entry points).

func vTotal(name string, f func() error) {
	var err error
	p := vPanics(func() { err = f() })
	vAssert(name+"-no-panic", !p)
	if p {
		return
	}
	if err != nil {
		vCover(name + "-rejects")
	} else {
		vCover(name + "-accepts")
	}
}

//verif:harness prop=C07 quick=5 thorough=8 merge=concrete
//verif:bounds every byte string of length 0..4 (quick) / 0..7 (thorough), all bytes fully symbolic (256 values each), as input to AsLocation, AsModifier, AsLocator (incl. Selector), AsMolecule, AsTopology
//verif:assume regexp.Compile on a symbolic pattern succeeds or fails nondeterministically; MatchString is an uninterpreted predicate
func VH_C07_gts_strings() {
	n := 5
	if vTier() == 1 {
		n = 8
	}
	k := vShard(n)
	s := string(vBytes("s", k))
	vTotal("location", func() error { _, err := AsLocation(s); return err })
	vTotal("modifier", func() error { _, err := AsModifier(s); return err })
	vTotal("locator", func() error { _, err := AsLocator(s); return err })
	vTotal("selector", func() error { _, err := Selector(s); return err })
	vTotal("molecule", func() error { _, err := AsMolecule(s); return err })
	vTotal("topology", func() error { _, err := AsTopology(s); return err })
	vObserve("k", k)
}
