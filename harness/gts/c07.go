package gts

// C07 — parsers are total (package gts entry points).

func vTotal(name string, f func() error) {
	var err error
	p := vPanics(func() { err = f() })
	vAssert(name+"-no-panic", !p)
	if p {
		return
	}
	if err != nil {
		vCover(name + "-rejects")
	} else {
		vCover(name + "-accepts")
	}
}

//verif:harness prop=C07 quick=5 thorough=30 merge=concrete timeout=1500
//verif:bounds every byte string of length 0..4 (quick) / 0..9 (thorough; lengths 6..9 one entry point per shard), all bytes fully symbolic (256 values each), as input to AsLocation, AsModifier, AsLocator (incl. Selector), AsMolecule, AsTopology
//verif:assume regexp.Compile on a symbolic pattern succeeds or fails nondeterministically; MatchString is an uninterpreted predicate
func VH_C07_gts_strings() {
	n := 5
	if vTier() == 1 {
		n = 30
	}
	sh := vShard(n)
	k, only := sh, -1
	if sh >= 6 {
		k, only = 6+(sh-6)/6, (sh-6)%6
	}
	s := string(vBytes("s", k))
	fns := []struct {
		name string
		f    func() error
	}{
		{"location", func() error { _, err := AsLocation(s); return err }},
		{"modifier", func() error { _, err := AsModifier(s); return err }},
		{"locator", func() error { _, err := AsLocator(s); return err }},
		{"selector", func() error { _, err := Selector(s); return err }},
		{"molecule", func() error { _, err := AsMolecule(s); return err }},
		{"topology", func() error { _, err := AsTopology(s); return err }},
	}
	for i, fn := range fns {
		if only < 0 || only == i {
			vTotal(fn.name, fn.f)
		}
	}
	vObserve("k", k)
}
