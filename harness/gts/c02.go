package gts

// C02 — Insert/Embed place the guest exactly; features keep their residues.
// Family B (location level, coordinate-unbounded): Shift(i,n) / Expand(i,n), n >= 0.

// vMarkerCounts returns the number of 5' and 3' partial markers over all atoms.
func vMarkerCounts(as []vAtom) (int, int) {
	n5, n3 := 0, 0
	for _, a := range as {
		n5 += vIte(a.p5, 1, 0)
		n3 += vIte(a.p3, 1, 0)
	}
	return n5, n3
}

func vC02Loc(fam int, kinds int, embed bool) {
	L := vIntIn("L", 1, vCap)
	A := vGenFamily("A", fam, L, kinds)
	i := vIntIn("i", 0, vCap)
	n := vIntIn("n", 0, vCap)
	vAssume(i <= L)
	var B Location
	if embed {
		B = A.Expand(i, n)
	} else {
		B = A.Shift(i, n)
	}
	as, bs := vAtoms(A), vAtoms(B)
	vCover("shifted")
	vAssert("in-range", vInRange(bs, L+n))
	// coverage under the insert map, per strand
	y := vIntIn("y", 0, 2*vCap)
	vAssume(y < L+n)
	for k := 0; k < 2; k++ {
		rev := k == 1
		want := vOr(vAnd(y < i, vCovS(as, y, rev)), vAnd(y >= i+n, vCovS(as, y-n, rev)))
		if embed {
			// a span that strictly contains i additionally covers the guest
			strict := false
			for _, a := range as {
				strict = vOr(strict, vAnd(a.rev == rev, vAnd(a.s < i, i < a.e)))
			}
			want = vOr(want, vAnd(vAnd(i <= y, y < i+n), strict))
		}
		if rev {
			vAssert("cov-rev", vCovS(bs, y, rev) == want)
		} else {
			vAssert("cov-fwd", vCovS(bs, y, rev) == want)
		}
	}
	// reading order of host residues is preserved: first-occurrence order
	x1 := vIntIn("x1", 0, vCap)
	x2 := vIntIn("x2", 0, vCap)
	vAssume(vAnd(x1 < L, x2 < L))
	vAssume(x1 != x2)
	m1 := vIte(x1 < i, x1, x1+n)
	m2 := vIte(x2 < i, x2, x2+n)
	both := vAnd(vCov(as, x1), vCov(as, x2))
	vAssert("order", vImplies(both, (vFirst(as, x1) < vFirst(as, x2)) == (vFirst(bs, m1) < vFirst(bs, m2))))
	// multiplicity: a residue denoted twice by overlapping ranges (join(1..5,5..8), a ribosomal slippage) stays
	// denoted twice; only with points and sites among the parts may a duplicate be absorbed (C06's reductions)
	allRanged := true
	grow := 0
	for _, a := range as {
		if a.kind != vkRanged {
			allRanged = false
		}
		if embed {
			grow += vIte(vAnd(a.s < i, i < a.e), n, 0)
		}
	}
	if allRanged {
		vAssert("multiplicity-kept", vLenA(bs) == vLenA(as)+grow)
	}
	// markers
	a5, a3 := vMarkerCounts(as)
	b5, b3 := vMarkerCounts(bs)
	vAssert("marker-count", vAnd(a5 == b5, a3 == b3))
	if len(as) == len(bs) {
		vCover("same-arity")
		for k := range as {
			vAssert("marker-per-atom", vAnd(as[k].p5 == bs[k].p5, as[k].p3 == bs[k].p3))
			vAssert("strand-kept", as[k].rev == bs[k].rev)
			if as[k].kind == vkBetween {
				g := as[k].s
				vAssert("site-left-stays", vImplies(g < i, bs[k].s == g))
				vAssert("site-right-moves", vImplies(g > i, bs[k].s == g+n))
			}
		}
	} else {
		vCover("split")
		// overlapping/duplicate parts may be absorbed when a split part is re-joined (C06 allows that);
		// with pairwise disjoint parts the arity can only grow
		vAssert("split-only-grows", vImplies(vDisjoint(as), len(bs) > len(as)))
		// outer ends keep their markers (reading order: first atom / last atom)
		f0, f1 := as[0], bs[0]
		l0, l1 := as[len(as)-1], bs[len(bs)-1]
		vAssert("outer-markers", vAnd(vImplies(vAnd(f1.p5, !f1.rev), f0.p5), vImplies(vAnd(l1.p3, !l1.rev), l0.p3)))
	}
	if fam == 1 {
		// a join written down as such (a parsed or hand-built value in normal form: two ranges that do not
		// abut, possibly overlapping as in join(1..5,5..8)): every residue keeps its multiplicity
		q := vGenParts("Q", 2, L, 1)
		r0, r1 := q[0].(Ranged), q[1].(Ranged)
		vAssume(r0.End != r1.Start)
		lit := Joined{r0, r1}
		var out Location
		if embed {
			out = lit.Expand(i, n)
		} else {
			out = lit.Shift(i, n)
		}
		ls, os := vAtoms(lit), vAtoms(out)
		g := 0
		if embed {
			for _, a := range ls {
				g += vIte(vAnd(a.s < i, i < a.e), n, 0)
			}
		}
		vAssert("literal-join-keeps-multiplicity", vLenA(os) == vLenA(ls)+g)
		yy := vIntIn("yy", 0, 2*vCap)
		vAssume(yy < L+n)
		w := vOr(vAnd(yy < i, vCovS(ls, yy, false)), vAnd(yy >= i+n, vCovS(ls, yy-n, false)))
		if embed {
			st := false
			for _, a := range ls {
				st = vOr(st, vAnd(a.s < i, i < a.e))
			}
			w = vOr(w, vAnd(vAnd(i <= yy, yy < i+n), st))
		}
		vAssert("literal-join-cov", vCovS(os, yy, false) == w)
	}
	vObserve("nb", len(bs))
	vObserve("b0.s", bs[0].s)
	vObserve("b0.e", bs[0].e)
}

//verif:harness prop=C02 quick=6 thorough=11
//verif:bounds location level: A.Shift(i,n), n>=0; quick shape families 0..5, thorough 0..10 (<=3 parts, depth 2); all coordinates, i, n, L symbolic in [0,2^40]
func VH_C02_shift_loc() {
	n := vFamS1
	if vTier() == 1 {
		n = vFamS2
	}
	vC02Loc(vShard(n), 4, false)
}

//verif:harness prop=C02 quick=6 thorough=11
//verif:bounds location level: A.Expand(i,n), n>=0 (Embed); quick shape families 0..5, thorough 0..10; all coordinates, i, n, L symbolic in [0,2^40]
func VH_C02_expand_loc() {
	n := vFamS1
	if vTier() == 1 {
		n = vFamS2
	}
	vC02Loc(vShard(n), 4, true)
}

// ---- Family A (API level): gts.Insert / gts.Embed on sequences -----------------------------

func vFindTagged(ff FeatureSlice, tag string) (Feature, int) {
	var out Feature
	n := 0
	for _, f := range ff {
		if len(f.Props) > 0 && len(f.Props[0]) > 1 && f.Props[0][0] == "tag" && f.Props[0][1] == tag {
			out = f
			n++
		}
	}
	return out, n
}

//verif:harness prop=C02 quick=6 thorough=12 merge=concrete timeout=1500 steps=150000000
//verif:bounds API level: gts.Insert and gts.Embed with a host of length 0..3 and a guest of length 0..2 (symbolic residues, every insertion index incl. 0 and len(host); host residues with len==cap or in a buffer with spare capacity; followed, in shards 0..5, by a second insertion of the same guest at an independent index into the same host: placed exactly again, first result unchanged); host table: source + one feature (range/point/between | 2-part join | complemented range | 2-part order, symbolic coordinates and flags); guest table: one range, point or between-site with symbolic coordinates (an empty guest carries a site)
func VH_C02_insert_api() {
	sh := vShard(6 + 6*vTier())
	embed := sh%2 == 1
	shape := (sh / 2) % 4
	L := 1 + vChoice("L", 3)
	if sh >= 6 {
		L = vChoice("L", 4) // thorough also the empty host
	}
	G := vChoice("G", 3)
	hdata, gdata := vBytes("h", L), vBytes("g", G)
	// the host's residues may sit in a buffer with room to spare (what every result of an earlier edit has)
	if vBool("h.spare") {
		buf := make([]byte, L, L+G+2)
		copy(buf, hdata)
		hdata = buf
	}
	h0 := make([]int, L)
	for k := range h0 {
		h0[k] = int(hdata[k])
	}
	hff := FeatureSlice{}
	var hloc Location
	if L > 0 {
		hff = hff.Insert(Feature{"source", Range(0, L), Props{[]string{"tag", "src"}}})
		hloc = vGenApiLoc("hf", L, shape)
		hff = hff.Insert(Feature{"gene", hloc, Props{[]string{"tag", "h"}, []string{"note", "x"}}})
	}
	gff := FeatureSlice{}
	var gloc Location
	if G > 0 {
		gloc = vGenAtom("gf", G, 3) // range, point or a site between two guest residues (incl. before the first / after the last)
		gff = gff.Insert(Feature{"cds", gloc, Props{[]string{"tag", "g"}}})
	} else {
		// an empty guest can still carry a feature (a site), e.g. what Delete leaves of a fully deleted record
		gloc = Between(0)
		gff = gff.Insert(Feature{"cds", gloc, Props{[]string{"tag", "g"}}})
	}
	host, guest := New("hi", hff, hdata), New("gi", gff, gdata)
	i := vChoice("i", L+1)
	var out Sequence
	if embed {
		out = Embed(host, i, guest)
	} else {
		out = Insert(host, i, guest)
	}
	vCover("inserted")
	got := out.Bytes()
	vAssert("length", len(got) == L+G)
	if len(got) != L+G {
		return
	}
	for k := 0; k < i; k++ {
		vAssert("host-prefix", got[k] == hdata[k])
	}
	for k := 0; k < G; k++ {
		vAssert("guest-placed", got[i+k] == gdata[k])
	}
	for k := i; k < L; k++ {
		vAssert("host-suffix", got[G+k] == hdata[k])
	}
	off := out.Features()
	want := len(hff) + len(gff)
	vAssert("feature-count", len(off) == want)
	x := vIntIn("x", 0, L+G)
	vAssume(x < L+G)
	if L > 0 {
		f, n := vFindTagged(off, "h")
		vAssert("host-feature-present-once", n == 1)
		if n == 1 {
			vAssert("host-feature-key-and-qualifiers", vAnd(f.Key == "gene", vAnd(len(f.Props) == 2, f.Props[1][1] == "x")))
			as, bs := vAtoms(hloc), vAtoms(f.Loc)
			vAssert("host-feature-in-range", vInRange(bs, L+G))
			for k := 0; k < 2; k++ {
				rev := k == 1
				w := vOr(vAnd(x < i, vCovS(as, x, rev)), vAnd(x >= i+G, vCovS(as, x-G, rev)))
				if embed {
					strict := false
					for _, a := range as {
						strict = vOr(strict, vAnd(a.rev == rev, vAnd(a.s < i, i < a.e)))
					}
					w = vOr(w, vAnd(vAnd(i <= x, x < i+G), strict))
				}
				vAssert("host-feature-residues", vCovS(bs, x, rev) == w)
			}
		}
		_, ns := vFindTagged(off, "src")
		vAssert("source-present-once", ns == 1)
	}
	{
		f, n := vFindTagged(off, "g")
		vAssert("guest-feature-present-once", n == 1)
		if n == 1 && G == 0 {
			bs := vAtoms(f.Loc)
			vAssert("guest-site-placed", vAnd(len(bs) == 1, vAnd(bs[0].kind == vkBetween, bs[0].s == i)))
		}
		if n == 1 && G > 0 {
			as, bs := vAtoms(gloc), vAtoms(f.Loc)
			vAssert("guest-feature-residues", vCovS(bs, x, false) == vAnd(x >= i, vCovS(as, x-i, false)))
			if as[0].kind == vkBetween {
				// a guest site keeps its place among the guest's residues
				vAssert("guest-site-placed", vAnd(len(bs) == 1, vAnd(bs[0].kind == vkBetween, bs[0].s == as[0].s+i)))
			}
			vAssert("guest-feature-key", f.Key == "cds")
		}
	}
	// sorted table: sources first
	seen := false
	for _, f := range off {
		if f.Key == "source" {
			vAssert("sources-first", !seen)
		} else {
			seen = true
		}
	}
	vAssert("arguments-unchanged", vAnd(len(host.Bytes()) == L, len(guest.Bytes()) == G))
	// a second insertion into the same host, elsewhere: the host is still the host (its residues were not
	// written through by the first call), and the first result still reads as it did
	if sh >= 6 {
		// the second insertion is exercised by the first six shards of either tier (shards 6..11 add the empty host)
		vObserve("outlen", len(got))
		return
	}
	first := make([]int, len(got))
	for k := range first {
		first[k] = int(got[k])
	}
	i2 := vChoice("i2", L+1)
	var out2 Sequence
	if embed {
		out2 = Embed(host, i2, guest)
	} else {
		out2 = Insert(host, i2, guest)
	}
	got2 := out2.Bytes()
	vAssert("second-length", len(got2) == L+G)
	if len(got2) == L+G {
		for k := 0; k < i2; k++ {
			vAssert("second-host-prefix", int(got2[k]) == h0[k])
		}
		for k := 0; k < G; k++ {
			vAssert("second-guest-placed", got2[i2+k] == gdata[k])
		}
		for k := i2; k < L; k++ {
			vAssert("second-host-suffix", int(got2[G+k]) == h0[k])
		}
	}
	for k := range first {
		vAssert("first-result-stable", int(out.Bytes()[k]) == first[k])
	}
	vObserve("outlen", len(got))
}
