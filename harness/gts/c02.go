package gts

// C02 — Insert/Embed place the guest exactly; features keep their residues.
// Family B (location level, coordinate-unbounded): Shift(i,n) / Expand(i,n), n >= 0.

// vMarkerCounts returns the number of 5' and 3' partial markers over all atoms.
func vMarkerCounts(as []vAtom) (int, int) {
	n5, n3 := 0, 0
	for _, a := range as {
		n5 += vIte(a.p5, 1, 0)
		n3 += vIte(a.p3, 1, 0)
	}
	return n5, n3
}

func vC02Loc(fam int, kinds int, embed bool) {
	L := vIntIn("L", 1, vCap)
	A := vGenFamily("A", fam, L, kinds)
	i := vIntIn("i", 0, vCap)
	n := vIntIn("n", 0, vCap)
	vAssume(i <= L)
	var B Location
	if embed {
		B = A.Expand(i, n)
	} else {
		B = A.Shift(i, n)
	}
	as, bs := vAtoms(A), vAtoms(B)
	vCover("shifted")
	vAssert("in-range", vInRange(bs, L+n))
	// coverage under the insert map, per strand
	y := vIntIn("y", 0, 2*vCap)
	vAssume(y < L+n)
	for k := 0; k < 2; k++ {
		rev := k == 1
		want := vOr(vAnd(y < i, vCovS(as, y, rev)), vAnd(y >= i+n, vCovS(as, y-n, rev)))
		if embed {
			// a span that strictly contains i additionally covers the guest
			strict := false
			for _, a := range as {
				strict = vOr(strict, vAnd(a.rev == rev, vAnd(a.s < i, i < a.e)))
			}
			want = vOr(want, vAnd(vAnd(i <= y, y < i+n), strict))
		}
		if rev {
			vAssert("cov-rev", vCovS(bs, y, rev) == want)
		} else {
			vAssert("cov-fwd", vCovS(bs, y, rev) == want)
		}
	}
	// reading order of host residues is preserved: first-occurrence order
	x1 := vIntIn("x1", 0, vCap)
	x2 := vIntIn("x2", 0, vCap)
	vAssume(vAnd(x1 < L, x2 < L))
	vAssume(x1 != x2)
	m1 := vIte(x1 < i, x1, x1+n)
	m2 := vIte(x2 < i, x2, x2+n)
	both := vAnd(vCov(as, x1), vCov(as, x2))
	vAssert("order", vImplies(both, (vFirst(as, x1) < vFirst(as, x2)) == (vFirst(bs, m1) < vFirst(bs, m2))))
	// markers
	a5, a3 := vMarkerCounts(as)
	b5, b3 := vMarkerCounts(bs)
	vAssert("marker-count", vAnd(a5 == b5, a3 == b3))
	if len(as) == len(bs) {
		vCover("same-arity")
		for k := range as {
			vAssert("marker-per-atom", vAnd(as[k].p5 == bs[k].p5, as[k].p3 == bs[k].p3))
			vAssert("strand-kept", as[k].rev == bs[k].rev)
			if as[k].kind == vkBetween {
				g := as[k].s
				vAssert("site-left-stays", vImplies(g < i, bs[k].s == g))
				vAssert("site-right-moves", vImplies(g > i, bs[k].s == g+n))
			}
		}
	} else {
		vCover("split")
		vAssert("split-only-grows", len(bs) > len(as))
		// outer ends keep their markers (reading order: first atom / last atom)
		f0, f1 := as[0], bs[0]
		l0, l1 := as[len(as)-1], bs[len(bs)-1]
		vAssert("outer-markers", vAnd(vImplies(vAnd(f1.p5, !f1.rev), f0.p5), vImplies(vAnd(l1.p3, !l1.rev), l0.p3)))
	}
	vObserve("nb", len(bs))
	vObserve("b0.s", bs[0].s)
	vObserve("b0.e", bs[0].e)
}

//verif:harness prop=C02 quick=6 thorough=11
//verif:bounds location level: A.Shift(i,n), n>=0; quick shape families 0..5, thorough 0..10 (<=3 parts, depth 2); all coordinates, i, n, L symbolic in [0,2^40]
func VH_C02_shift_loc() {
	n := vFamS1
	if vTier() == 1 {
		n = vFamS2
	}
	vC02Loc(vShard(n), 4, false)
}

//verif:harness prop=C02 quick=6 thorough=11
//verif:bounds location level: A.Expand(i,n), n>=0 (Embed); quick shape families 0..5, thorough 0..10; all coordinates, i, n, L symbolic in [0,2^40]
func VH_C02_expand_loc() {
	n := vFamS1
	if vTier() == 1 {
		n = vFamS2
	}
	vC02Loc(vShard(n), 4, true)
}
