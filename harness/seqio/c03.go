package seqio

// C03 — coordinate-bearing metadata follows a slice: topology and REFERENCE base ranges.

import (
	"fmt"

	"github.com/go-gts/gts"
)

//verif:harness prop=C03 quick=2 thorough=4 merge=concrete timeout=1200
//verif:bounds GenBankFields.Slice / gts.Slice on a GenBank record of 9 residues: references "(bases A to B; C to D)" (two ranges in either order, incl. origin-spanning order), "(bases E to F)" and a free-text reference, A..F symbolic in 1..9 (the single range also reversed, E > F); window [s,e) symbolic; quick: DNA, thorough adds the AA counter word and a circular record
func VH_C03_reference_slice() {
	const L = 9
	sh := vShard(2 + 2*vTier())
	mol := gts.DNA
	word := "bases"
	if sh >= 2 {
		mol, word = gts.AA, "residues"
	}
	num := func(name string) int { return vIntIn(name, 1, L) }
	A, B, C, D, E, F := num("A"), num("B"), num("C"), num("D"), num("E"), num("F")
	vAssume(vAnd(A <= B, C <= D)) // E > F: "(bases 5 to 3)" is not a base range; the reference is kept as free text
	info1 := fmt.Sprintf("(%s %d to %d; %d to %d)", word, A, B, C, D)
	info2 := fmt.Sprintf("(%s %d to %d)", word, E, F)
	refs := []Reference{{Number: 1, Info: info1, Authors: "a"}, {Number: 2, Info: "sites", Authors: "b"}, {Number: 3, Info: info2, Authors: "c"}}
	top := gts.Linear
	if sh%2 == 1 {
		top = gts.Circular
	}
	gb := GenBank{Fields: GenBankFields{LocusName: "X", Molecule: mol, Topology: top, Date: Date{2000, 1, 1}, References: refs},
		Origin: NewOrigin([]byte("acgtacgta"))}
	s := vIntIn("s", 0, L-1)
	e := vIntIn("e", 1, L)
	vAssume(s < e)
	var sliced gts.Sequence
	if vPanics(func() { sliced = gts.Slice(gb, s, e) }) {
		vAssert("slice-no-panic", false)
		return
	}
	out, ok := sliced.(GenBank)
	vAssert("still-genbank", ok)
	if !ok {
		return
	}
	vCover("sliced")
	vAssert("slice-is-linear", out.Fields.Topology == gts.Linear)
	vAssert("argument-unchanged", vAnd(len(gb.Fields.References) == 3, gb.Fields.References[0].Info == info1))
	// reference model: a range [a-1,b) survives iff it overlaps [s,e); clipped and re-based
	type rng struct{ a, b int }
	keep := func(r rng) bool { return vAnd(r.a-1 < e, s < r.b) }
	clip := func(r rng) (int, int) { return vMax(0, r.a-1-s) + 1, vMin(e-s, r.b-s) }
	r1, r2, r3 := rng{A, B}, rng{C, D}, rng{E, F}
	k1, k2, k3 := keep(r1), keep(r2), keep(r3)
	got := out.Fields.References
	// expected list, built path by path (the keeps are decided by forking here)
	var want []Reference
	if k1 || k2 {
		var parts string
		if k1 {
			h, t := clip(r1)
			parts = fmt.Sprintf("%d to %d", h, t)
		}
		if k2 {
			h, t := clip(r2)
			if k1 {
				parts += "; "
			}
			parts += fmt.Sprintf("%d to %d", h, t)
		}
		want = append(want, Reference{Info: fmt.Sprintf("(%s %s)", word, parts), Authors: "a"})
	}
	want = append(want, Reference{Info: "sites", Authors: "b"})
	if E > F {
		want = append(want, Reference{Info: info2, Authors: "c"})
	} else if k3 {
		h, t := clip(r3)
		want = append(want, Reference{Info: fmt.Sprintf("(%s %d to %d)", word, h, t), Authors: "c"})
	}
	vAssert("reference-count", len(got) == len(want))
	if len(got) != len(want) {
		return
	}
	for i := range want {
		vAssert("reference-renumbered", got[i].Number == i+1)
		vAssert("reference-identity", got[i].Authors == want[i].Authors)
		vAssert("reference-range-clipped-and-rebased", got[i].Info == want[i].Info)
	}
	vObserve("nrefs", len(got))
}
