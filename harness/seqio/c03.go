package seqio

// C03 — coordinate-bearing metadata follows a slice: topology and REFERENCE base ranges.

import (
	"fmt"

	"github.com/go-gts/gts"
	"github.com/go-pars/pars"
)

//verif:harness prop=C03 quick=2 thorough=4 merge=concrete timeout=1200
//verif:bounds GenBankFields.Slice / gts.Slice on a GenBank record of 9 residues: references "(bases A to B; C to D)" (two ranges in either order, incl. origin-spanning order), "(bases E to F)" and a free-text reference, A..F symbolic in 1..9 (the single range also reversed, E > F); window [s,e) symbolic; quick: DNA, thorough adds the AA counter word and a circular record
func VH_C03_reference_slice() {
	const L = 9
	sh := vShard(2 + 2*vTier())
	mol := gts.DNA
	word := "bases"
	if sh >= 2 {
		mol, word = gts.AA, "residues"
	}
	num := func(name string) int { return vIntIn(name, 1, L) }
	A, B, C, D, E, F := num("A"), num("B"), num("C"), num("D"), num("E"), num("F")
	vAssume(vAnd(A <= B, C <= D)) // E > F: "(bases 5 to 3)" is not a base range; the reference is kept as free text
	info1 := fmt.Sprintf("(%s %d to %d; %d to %d)", word, A, B, C, D)
	info2 := fmt.Sprintf("(%s %d to %d)", word, E, F)
	refs := []Reference{{Number: 1, Info: info1, Authors: "a"}, {Number: 2, Info: "sites", Authors: "b"}, {Number: 3, Info: info2, Authors: "c"}}
	top := gts.Linear
	if sh%2 == 1 {
		top = gts.Circular
	}
	gb := GenBank{Fields: GenBankFields{LocusName: "X", Molecule: mol, Topology: top, Date: Date{2000, 1, 1}, References: refs},
		Origin: NewOrigin([]byte("acgtacgta"))}
	s := vIntIn("s", 0, L-1)
	e := vIntIn("e", 1, L)
	vAssume(s < e)
	var sliced gts.Sequence
	if vPanics(func() { sliced = gts.Slice(gb, s, e) }) {
		vAssert("slice-no-panic", false)
		return
	}
	out, ok := sliced.(GenBank)
	vAssert("still-genbank", ok)
	if !ok {
		return
	}
	vCover("sliced")
	vAssert("slice-is-linear", out.Fields.Topology == gts.Linear)
	vAssert("argument-unchanged", vAnd(len(gb.Fields.References) == 3, gb.Fields.References[0].Info == info1))
	// reference model: a range [a-1,b) survives iff it overlaps [s,e); clipped and re-based
	type rng struct{ a, b int }
	keep := func(r rng) bool { return vAnd(r.a-1 < e, s < r.b) }
	clip := func(r rng) (int, int) { return vMax(0, r.a-1-s) + 1, vMin(e-s, r.b-s) }
	r1, r2, r3 := rng{A, B}, rng{C, D}, rng{E, F}
	k1, k2, k3 := keep(r1), keep(r2), keep(r3)
	got := out.Fields.References
	// expected list, built path by path (the keeps are decided by forking here)
	var want []Reference
	if k1 || k2 {
		var parts string
		if k1 {
			h, t := clip(r1)
			parts = fmt.Sprintf("%d to %d", h, t)
		}
		if k2 {
			h, t := clip(r2)
			if k1 {
				parts += "; "
			}
			parts += fmt.Sprintf("%d to %d", h, t)
		}
		want = append(want, Reference{Info: fmt.Sprintf("(%s %s)", word, parts), Authors: "a"})
	}
	want = append(want, Reference{Info: "sites", Authors: "b"})
	if E > F {
		want = append(want, Reference{Info: info2, Authors: "c"})
	} else if k3 {
		h, t := clip(r3)
		want = append(want, Reference{Info: fmt.Sprintf("(%s %d to %d)", word, h, t), Authors: "c"})
	}
	vAssert("reference-count", len(got) == len(want))
	if len(got) != len(want) {
		return
	}
	for i := range want {
		vAssert("reference-renumbered", got[i].Number == i+1)
		vAssert("reference-identity", got[i].Authors == want[i].Authors)
		vAssert("reference-range-clipped-and-rebased", got[i].Info == want[i].Info)
	}
	vObserve("nrefs", len(got))
}

// vRefRanges reads the base ranges of a reference info back (nil when it is free text).
func vRefRanges(word, info string) []gts.Ranged {
	res, err := parseReferenceInfo(word).Parse(pars.FromString(info))
	if err != nil {
		return nil
	}
	return res.Value.([]gts.Ranged)
}

//verif:harness prop=C03 quick=1 thorough=2 merge=concrete timeout=1200
//verif:bounds wrap-around windows: gts.Slice(gb, s, e) with e < s on a circular GenBank record of L = 5 (quick) / 7 (thorough) residues, references "(bases A to B; C to D)", free text, "(bases E to F)", A..F symbolic in 1..L, every s in 1..L-1 and e in 0..s-1: a reference is kept iff one of its bases lies in the window [s,L) + [0,e), its ranges cover exactly the images of those bases in the slice, references are renumbered consecutively
func VH_C03_reference_wrap() {
	L := 5 + 2*vTier()
	word := "bases"
	mol := gts.DNA
	if vShard(1+vTier()) == 1 {
		mol, word = gts.AA, "residues"
	}
	num := func(name string) int { return vIntIn(name, 1, L) }
	A, B, C, D, E, F := num("A"), num("B"), num("C"), num("D"), num("E"), num("F")
	vAssume(vAnd(A <= B, vAnd(C <= D, E <= F)))
	info1 := fmt.Sprintf("(%s %d to %d; %d to %d)", word, A, B, C, D)
	info2 := fmt.Sprintf("(%s %d to %d)", word, E, F)
	refs := []Reference{{Number: 1, Info: info1, Authors: "a"}, {Number: 2, Info: "sites", Authors: "b"}, {Number: 3, Info: info2, Authors: "c"}}
	gb := GenBank{Fields: GenBankFields{LocusName: "X", Molecule: mol, Topology: gts.Circular, Date: Date{2000, 1, 1}, References: refs},
		Origin: NewOrigin([]byte("acgtacgta")[:L])}
	s := 1 + vChoice("s", L-1)
	e := vChoice("e", s)
	wlen := L - s + e
	var sliced gts.Sequence
	if vPanics(func() { sliced = gts.Slice(gb, s, e) }) {
		vAssert("slice-no-panic", false)
		return
	}
	out, ok := sliced.(GenBank)
	vAssert("still-genbank", ok)
	if !ok {
		return
	}
	vCover("sliced")
	vAssert("window-length", len(out.Bytes()) == wlen)
	vAssert("slice-is-linear", out.Fields.Topology == gts.Linear)
	vAssert("argument-unchanged", vAnd(len(gb.Fields.References) == 3, vAnd(gb.Fields.References[0].Info == info1, gb.Fields.References[2].Info == info2)))
	// base b (0-based) of the record lies in the window iff b >= s or b < e
	inWin := func(b int) bool { return vOr(b >= s, b < e) }
	covers := func(rs [][2]int, b int) bool {
		c := false
		for _, r := range rs {
			c = vOr(c, vAnd(r[0]-1 <= b, b < r[1]))
		}
		return c
	}
	r1 := [][2]int{{A, B}, {C, D}}
	r3 := [][2]int{{E, F}}
	kept := func(rs [][2]int) bool {
		k := false
		for b := 0; b < L; b++ {
			k = vOr(k, vAnd(inWin(b), covers(rs, b)))
		}
		return k
	}
	k1, k3 := kept(r1), kept(r3)
	got := out.Fields.References
	wantN := 1
	if k1 {
		wantN++
	}
	if k3 {
		wantN++
	}
	vAssert("reference-count", len(got) == wantN)
	if len(got) != wantN {
		return
	}
	idx := 0
	check := func(rs [][2]int, author string) {
		g := got[idx]
		vAssert("reference-renumbered", g.Number == idx+1)
		vAssert("reference-identity", g.Authors == author)
		gr := vRefRanges(word, g.Info)
		vAssert("reference-still-a-base-range", gr != nil)
		for x := 0; x < wlen; x++ {
			src := (s + x) % L
			c := false
			for _, r := range gr {
				c = vOr(c, vAnd(r.Start <= x, x < r.End))
			}
			vAssert("reference-covers-the-images-of-its-bases", c == covers(rs, src))
		}
		for _, r := range gr {
			vAssert("reference-range-inside-the-slice", vAnd(0 <= r.Start, r.End <= wlen))
		}
		idx++
	}
	if k1 {
		check(r1, "a")
	}
	vAssert("free-text-reference-kept", vAnd(got[idx].Info == "sites", got[idx].Number == idx+1))
	idx++
	if k3 {
		check(r3, "c")
	}
	vObserve("nrefs", len(got))
}
