package seqio

// C01 — GenBank records written by gts read back identically (closure + fidelity).

import (
	"time"

	"github.com/go-gts/gts"
)

type timeMonth = time.Month

func vWordBytes(name string, n int) string { return string(vBytesIn(name, n, 'a', 'z')) }

// vValidDate assumes a valid calendar date and returns it.
func vValidDate() Date {
	y := vIntIn("year", 1000, 9999)
	m := vIntIn("month", 1, 12)
	d := vIntIn("day", 1, 31)
	leap := vOr(y%400 == 0, vAnd(y%100 != 0, y%4 == 0))
	dmax := vIte(vOr(vOr(m == 4, m == 6), vOr(m == 9, m == 11)), 30, vIte(m == 2, vIte(leap, 29, 28), 31))
	vAssume(d <= dmax)
	return Date{y, time_Month(m), d}
}

func vSameFeatures(a, b []gts.Feature) bool {
	if len(a) != len(b) {
		return false
	}
	ok := true
	for i := range a {
		ok = vAnd(ok, a[i].Key == b[i].Key)
		ok = vAnd(ok, a[i].Loc.String() == b[i].Loc.String())
		if len(a[i].Props) != len(b[i].Props) {
			return false
		}
		for j := range a[i].Props {
			if len(a[i].Props[j]) != len(b[i].Props[j]) {
				return false
			}
			for k := range a[i].Props[j] {
				ok = vAnd(ok, a[i].Props[j][k] == b[i].Props[j][k])
			}
		}
	}
	return ok
}

// vKeywords: one short keyword, or (odd shapes) eight 9-letter keywords whose joined text exceeds the 67-column wrap
func vKeywords(shape int) []string {
	if shape%2 == 0 {
		return []string{vWordBytes("kw", 1)}
	}
	var ks []string
	for i := 0; i < 8; i++ {
		ks = append(ks, vWordBytes("kw"+string(rune('0'+i)), 1)+"keywordx")
	}
	return ks
}

func vC01(shape int) {
	n := []int{4, 0, 12, 61}[shape%4]
	data := vBytesIn("r", n, 33, 126)
	var ff gts.FeatureSlice
	switch shape / 4 {
	case 0: // no features at all
	case 1:
		p := gts.Props{}
		p.Add("mol_type", vWordBytes("q0", 2))
		ff = ff.Insert(gts.Feature{Key: "source", Loc: gts.Range(0, gts.Max(n, 1)), Props: p})
	default:
		p := gts.Props{}
		p.Add("gene", vWordBytes("q0", 1))     // quoted
		p.Add("codon_start", "1")               // literal
		p.Add("pseudo", "")                     // toggle
		p.Add("note", string(vBytesIn("q1", 2, 'a', 'c'))+"\n"+vWordBytes("q2", 1)) // multi-line quoted
		s := vIntIn("f.s", 0, 8)
		e := vIntIn("f.e", 1, 9)
		vAssume(s < e)
		var loc gts.Location = gts.PartialRange(s, e, gts.Partial{Partial5: vBool("f.p5"), Partial3: vBool("f.p3")})
		if vBool("f.rev") {
			loc = loc.Complement()
		}
		ff = ff.Insert(gts.Feature{Key: "CDS", Loc: loc, Props: p})
		ff = ff.Insert(gts.Feature{Key: "gene", Loc: gts.Join(gts.Range(0, 2), gts.Point(vIntIn("f2.p", 3, 8))), Props: gts.Props{}})
	}
	gb := GenBank{
		Fields: GenBankFields{LocusName: vWordBytes("locus", 2), Molecule: gts.DNA, Topology: gts.Topology(vChoice("top", 2)), Division: "UNK",
			Date: vValidDate(), Definition: string(vBytesIn("def", 2, '.', 'z')), Accession: vWordBytes("acc", 1), Version: vWordBytes("ver", 1),
			Keywords: vKeywords(shape),
			Source:   Organism{vWordBytes("sp", 1), vWordBytes("org", 1), []string{vWordBytes("tax", 1), "x"}},
			References: []Reference{{Number: 1, Info: "(bases 1 to 4)", Authors: vWordBytes("au", 1), Title: vWordBytes("ti", 1)}},
			Comments:   []string{vWordBytes("cm", 2)},
		},
		Table:  ff,
		Origin: NewOrigin(data),
	}
	gb.Fields.DBLink.Set("BioProject", vWordBytes("dbl", 1))
	if n == 0 {
		gb.Fields.Contig = Contig{"C", gts.Segment{0, 4}}
	}
	var text string
	p := vPanics(func() { text = gb.String() })
	vAssert("write-no-panic", !p)
	if p {
		return
	}
	vCover("written")
	recs, seqs, err := vScanAll([]byte(text), 2)
	vAssert("reader-accepts-own-output", vAnd(err == nil, recs == 1))
	if err != nil || recs != 1 {
		return
	}
	back, ok := seqs[0].(GenBank)
	vAssert("is-genbank", ok)
	if !ok {
		return
	}
	vAssert("same-residues", vSameBytes(back.Bytes(), data))
	vAssert("same-features", vSameFeatures(back.Table, ff))
	f, g := gb.Fields, back.Fields
	vAssert("same-locus-line", vAnd(vAnd(f.LocusName == g.LocusName, f.Molecule == g.Molecule), vAnd(f.Topology == g.Topology, f.Division == g.Division)))
	vAssert("same-date", vAnd(vAnd(f.Date.Year == g.Date.Year, f.Date.Month == g.Date.Month), f.Date.Day == g.Date.Day))
	vAssert("same-header", vAnd(vAnd(f.Definition == g.Definition, f.Accession == g.Accession), f.Version == g.Version))
	vAssert("same-source", vAnd(f.Source.Species == g.Source.Species, f.Source.Name == g.Source.Name))
	for i := range f.Keywords {
		if i < len(g.Keywords) {
			vAssert("same-keywords", f.Keywords[i] == g.Keywords[i])
		}
	}
	vAssert("same-counts", vAnd(vAnd(len(g.Keywords) == len(f.Keywords), len(g.References) == len(f.References)), vAnd(len(g.Comments) == len(f.Comments), len(g.DBLink) == len(f.DBLink))))
	var text2 string
	p2 := vPanics(func() { text2 = back.String() })
	vAssert("rewrite-no-panic", !p2)
	if p2 {
		return
	}
	vAssert("write-read-write-fixed-point", text2 == text)
	vObserve("len", len(text))
}

//verif:harness prop=C01 quick=6 thorough=12 merge=concrete timeout=1500
//verif:bounds bounded template records: residues 4 | 0 (CONTIG-only) | 12 | 61 symbolic printable bytes; feature table empty | source only | CDS (symbolic partial range on either strand; quoted, literal, toggle and multi-line qualifiers) + gene join; header strings of 1..2 symbolic letters each (definition bytes over '.'..'z', so it may end in a period); keywords: one short, or eight long ones that wrap; symbolic valid calendar date (year 1000..9999); topology by choice
//verif:assume time.Time.Format("02-Jan-2006") is modelled field by field for a valid date
func VH_C01_roundtrip() {
	ns := 6 + 6*vTier()
	vC01(vShard(ns))
}

func time_Month(m int) timeMonth { return timeMonth(m) }
