package seqio

// C01 — GenBank records written by gts read back identically (closure + fidelity).

import (
	"bytes"
	"time"

	"github.com/go-gts/gts"
)

type timeMonth = time.Month

func vWordBytes(name string, n int) string { return string(vBytesIn(name, n, 'a', 'z')) }

// vValidDate assumes a valid calendar date and returns it.
func vValidDate() Date {
	y := vIntIn("year", 1000, 9999)
	m := vIntIn("month", 1, 12)
	d := vIntIn("day", 1, 31)
	leap := vOr(y%400 == 0, vAnd(y%100 != 0, y%4 == 0))
	dmax := vIte(vOr(vOr(m == 4, m == 6), vOr(m == 9, m == 11)), 30, vIte(m == 2, vIte(leap, 29, 28), 31))
	vAssume(d <= dmax)
	return Date{y, time_Month(m), d}
}

func vSameFeatures(a, b []gts.Feature) bool {
	if len(a) != len(b) {
		return false
	}
	ok := true
	for i := range a {
		ok = vAnd(ok, a[i].Key == b[i].Key)
		ok = vAnd(ok, a[i].Loc.String() == b[i].Loc.String())
		if len(a[i].Props) != len(b[i].Props) {
			return false
		}
		for j := range a[i].Props {
			if len(a[i].Props[j]) != len(b[i].Props[j]) {
				return false
			}
			for k := range a[i].Props[j] {
				ok = vAnd(ok, a[i].Props[j][k] == b[i].Props[j][k])
			}
		}
	}
	return ok
}

// vAccession: one accession, or (source-only shapes) a primary and a secondary accession on two lines,
// as records with many secondary accessions have
func vAccession(kind int) string {
	if kind == 1 {
		return vWordBytes("acc", 1) + "\n" + vWordBytes("acd", 1)
	}
	return vWordBytes("acc", 1)
}

// vKeywords: one short keyword, or (odd shapes) eight 9-letter keywords whose joined text exceeds the 67-column wrap
func vKeywords(shape int) []string {
	if shape%2 == 0 {
		return []string{vWordBytes("kw", 1)}
	}
	var ks []string
	for i := 0; i < 8; i++ {
		ks = append(ks, vWordBytes("kw"+string(rune('0'+i)), 1)+"keywordx")
	}
	return ks
}

// (residue count, table kind) per shard; the first six are the quick tier
var vC01Shapes = [][2]int{{4, 0}, {0, 0}, {12, 1}, {61, 1}, {4, 3}, {4, 2}, {12, 0}, {61, 0}, {4, 1}, {0, 1}, {12, 2}, {12, 3}}

var vC01RefNumbers = []int{1, 100, 12, 1234, 999, 9}

func vC01(shape int) {
	n, kind := vC01Shapes[shape][0], vC01Shapes[shape][1]
	data := vBytesIn("r", n, 33, 126)
	var ff gts.FeatureSlice
	switch kind {
	case 0: // no features at all
	case 1:
		p := gts.Props{}
		p.Add("mol_type", vWordBytes("q0", 2))
		ff = ff.Insert(gts.Feature{Key: "source", Loc: gts.Range(0, gts.Max(n, 1)), Props: p})
	case 3:
		// a feature key over the INSDC key alphabet (letters, digits, _ - ' *): 5'UTR, D-loop, -10_signal ...
		kb := vBytes("key", 2)
		for _, c := range kb {
			vAssume(vOr(vOr(vAnd('0' <= c, c <= '9'), vAnd('a' <= c, c <= 'z')), vOr(vOr(vAnd('A' <= c, c <= 'Z'), c == '_'), vOr(c == '-', vOr(c == '\'', c == '*')))))
		}
		ff = ff.Insert(gts.Feature{Key: "gene", Loc: gts.Range(0, 2), Props: gts.Props{}})
		ff = ff.Insert(gts.Feature{Key: string(kb) + "R", Loc: gts.Range(1, 3), Props: gts.Props{}})
		ff = ff.Insert(gts.Feature{Key: "gene", Loc: gts.Range(2, 4), Props: gts.Props{}})
	default:
		p := gts.Props{}
		p.Add("gene", vWordBytes("q0", 1))     // quoted
		p.Add("codon_start", "1")               // literal
		p.Add("pseudo", "")                     // toggle
		p.Add("translation", "MK")              // not the last qualifier: the order of qualifiers is part of the table
		// multi-line quoted: four lines, the inner ones short (one letter) and empty (a paragraph break)
		p.Add("note", string(vBytesIn("q1", 2, 'a', 'c'))+"\n"+vWordBytes("q2", 1)+"\n\n"+vWordBytes("q3", 1))
		s := vIntIn("f.s", 0, 8)
		e := vIntIn("f.e", 1, 9)
		vAssume(s < e)
		var loc gts.Location = gts.PartialRange(s, e, gts.Partial{Partial5: vBool("f.p5"), Partial3: vBool("f.p3")})
		if vBool("f.rev") {
			loc = loc.Complement()
		}
		ff = ff.Insert(gts.Feature{Key: "CDS", Loc: loc, Props: p})
		ff = ff.Insert(gts.Feature{Key: "gene", Loc: gts.Join(gts.Range(0, 2), gts.Point(vIntIn("f2.p", 3, 8))), Props: gts.Props{}})
	}
	gb := GenBank{
		Fields: GenBankFields{LocusName: vWordBytes("locus", 2), Molecule: gts.DNA, Topology: gts.Topology(vChoice("top", 2)), Division: "UNK",
			Date: vValidDate(), Definition: string(vBytesIn("def", 2, '.', 'z')), Accession: vAccession(kind), Version: vWordBytes("ver", 1),
			Keywords: vKeywords(shape),
			Source:   Organism{vWordBytes("sp", 1), vWordBytes("org", 1), []string{vWordBytes("tax", 1), "x"}},
			// reference numbers of 1..4 digits (the number shares a 3-column field with the pad before the base range), one per shard;
			// a second reference without base range
			References: []Reference{{Number: vC01RefNumbers[shape%len(vC01RefNumbers)], Info: "(bases 1 to 4)", Authors: vWordBytes("au", 1), Title: vWordBytes("ti", 1)},
				{Number: vC01RefNumbers[shape%len(vC01RefNumbers)] + 1, Info: "", Authors: vWordBytes("av", 1), Title: vWordBytes("tj", 1)}},
			Comments:   []string{vWordBytes("cm", 2), vWordBytes("cn", 1) + "\n\n" + vWordBytes("co", 1)}, // the second one has a paragraph break
		},
		Table:  ff,
		Origin: NewOrigin(data),
	}
	gb.Fields.DBLink.Set("BioProject", vWordBytes("dbl", 1))
	if n == 0 {
		gb.Fields.Contig = Contig{"C", gts.Segment{0, 4}}
	}
	var text string
	p := vPanics(func() { text = gb.String() })
	vAssert("write-no-panic", !p)
	if p {
		return
	}
	vCover("written")
	recs, seqs, err := vScanAll([]byte(text), 2)
	vAssert("reader-accepts-own-output", vAnd(err == nil, recs == 1))
	if err != nil || recs != 1 {
		return
	}
	back, ok := seqs[0].(GenBank)
	vAssert("is-genbank", ok)
	if !ok {
		return
	}
	vAssert("same-residues", vSameBytes(back.Bytes(), data))
	vAssert("same-features", vSameFeatures(back.Table, ff))
	f, g := gb.Fields, back.Fields
	vAssert("same-locus-line", vAnd(vAnd(f.LocusName == g.LocusName, f.Molecule == g.Molecule), vAnd(f.Topology == g.Topology, f.Division == g.Division)))
	vAssert("same-date", vAnd(vAnd(f.Date.Year == g.Date.Year, f.Date.Month == g.Date.Month), f.Date.Day == g.Date.Day))
	vAssert("same-header", vAnd(vAnd(f.Definition == g.Definition, f.Accession == g.Accession), f.Version == g.Version))
	vAssert("same-source", vAnd(f.Source.Species == g.Source.Species, f.Source.Name == g.Source.Name))
	for i := range f.Keywords {
		if i < len(g.Keywords) {
			vAssert("same-keywords", f.Keywords[i] == g.Keywords[i])
		}
	}
	for i := range f.Comments {
		if i < len(g.Comments) {
			vAssert("same-comments", f.Comments[i] == g.Comments[i])
		}
	}
	for i := range f.References {
		if i < len(g.References) {
			vAssert("same-references", vAnd(vAnd(f.References[i].Number == g.References[i].Number, f.References[i].Info == g.References[i].Info), vAnd(f.References[i].Authors == g.References[i].Authors, f.References[i].Title == g.References[i].Title)))
		}
	}
	if len(g.DBLink) == len(f.DBLink) {
		for i := range f.DBLink {
			vAssert("same-dblink", vAnd(f.DBLink[i].Key == g.DBLink[i].Key, f.DBLink[i].Value == g.DBLink[i].Value))
		}
	}
	if len(g.Source.Taxon) == len(f.Source.Taxon) {
		for i := range f.Source.Taxon {
			vAssert("same-taxonomy", f.Source.Taxon[i] == g.Source.Taxon[i])
		}
	} else {
		vAssert("same-taxonomy", false)
	}
	vAssert("same-counts", vAnd(vAnd(len(g.Keywords) == len(f.Keywords), len(g.References) == len(f.References)), vAnd(len(g.Comments) == len(f.Comments), len(g.DBLink) == len(f.DBLink))))
	var text2 string
	p2 := vPanics(func() { text2 = back.String() })
	vAssert("rewrite-no-panic", !p2)
	if p2 {
		return
	}
	vAssert("write-read-write-fixed-point", text2 == text)
	vObserve("len", len(text))
}

//verif:harness prop=C01 quick=6 thorough=12 merge=concrete timeout=1500 steps=200000000
//verif:bounds bounded template records: residues 4 | 0 (CONTIG-only) | 12 | 61 symbolic printable bytes; feature table empty | source only | CDS (symbolic partial range on either strand; quoted, literal, toggle and 4-line quoted qualifiers (short and empty inner lines), /translation followed by another qualifier) + gene join | a feature between two genes whose key starts with two symbolic bytes of the INSDC key alphabet (letters, digits, _ - ' *); two references (number of 1..4 digits per shard: 1 | 100 | 12 | 1234 | 999 | 9, with base range; the next number without); header strings of 1..2 symbolic letters each (definition bytes over '.'..'z', so it may end in a period); keywords: one short, or eight long ones that wrap; two comments, one with a blank line inside; a two-line ACCESSION in the source-only shapes; reference, dblink and taxonomy compared field by field; symbolic valid calendar date (year 1000..9999); topology by choice
//verif:assume time.Time.Format("02-Jan-2006") is modelled field by field for a valid date
func VH_C01_roundtrip() {
	ns := 6 + 6*vTier()
	vC01(vShard(ns))
}

func time_Month(m int) timeMonth { return timeMonth(m) }

// ---- records reached by edit operations, and multi-record framing ---------------------------

// vPipeLoc: one feature location with symbolic coordinates on a sequence of length L.
func vPipeLoc(name string, L int, shape int) gts.Location {
	s := vIntIn(name+".s", 0, L-1)
	e := vIntIn(name+".e", 1, L)
	vAssume(s < e)
	switch shape {
	case 0:
		return gts.PartialRange(s, e, gts.Partial{Partial5: vBool(name + ".p5"), Partial3: vBool(name + ".p3")})
	case 1:
		return gts.Range(s, e).Complement()
	case 2:
		m := vIntIn(name+".m", 0, L)
		vAssume(vAnd(s < m, m < e))
		return gts.Join(gts.Range(s, m), gts.Range(m, e)) // reduces to one range; kept as the abutting-parts case
	case 3:
		return gts.Order(gts.Point(s), gts.Range(s, e))
	default:
		return gts.Between(e)
	}
}

var vPipeConcrete bool

func vPipeRecord(name string, L int, shape int) (GenBank, []byte) {
	data := vBytesIn(name+".r", L, 'a', 'z')
	if vPipeConcrete {
		data = []byte("acgtnacgtn")[:L] // Complement maps every residue through a table: symbolic residues fork 26-fold per byte
	}
	var ff gts.FeatureSlice
	sp := gts.Props{}
	sp.Add("mol_type", "x")
	if L > 0 {
		ff = ff.Insert(gts.Feature{Key: "source", Loc: gts.Range(0, L), Props: sp})
		gp := gts.Props{}
		gp.Add("gene", name)
		ff = ff.Insert(gts.Feature{Key: "gene", Loc: vPipeLoc(name+".f", L, shape), Props: gp})
	}
	gb := GenBank{
		Fields: GenBankFields{LocusName: "X", Molecule: gts.DNA, Topology: gts.Linear, Division: "UNK",
			Date: Date{2000, 1, 1}, Definition: "d", Accession: "A", Version: "A.1",
			Source:     Organism{"s", "o", []string{"t"}},
			References: []Reference{{Number: 1, Info: "(bases 1 to " + string(rune('0'+L)) + ")", Authors: "a"}},
		},
		Table:  ff,
		Origin: NewOrigin(data),
	}
	return gb, data
}

// vWriteGenBank writes any sequence through the real GenBank writer.
func vWriteGenBank(seq gts.Sequence) (string, error, bool) {
	buf := &bytes.Buffer{}
	var err error
	p := vPanics(func() { _, err = NewWriter(buf, GenBankFile).WriteSeq(seq) })
	return buf.String(), err, p
}

//verif:harness prop=C01 quick=11 thorough=47 merge=concrete timeout=1500
//verif:bounds records reached by ONE edit operation (insert | embed | delete | erase | slice incl. wrap-around and empty windows | rotate | reverse | complement | concat) from a record of 5 symbolic residues with a source and one gene (quick: partial range with symbolic coordinates and flags; thorough: also complemented range, abutting join, order, between-site), every operation argument symbolic (residues symbolic except under complement), and a CONTIG-only record (symbolic contig span, no ORIGIN) through reverse | complement; then write -> read -> write
func VH_C01_pipeline() {
	sh := vShard(11 + 36*vTier())
	if sh >= 9+36*vTier() {
		// a CONTIG-only record (no ORIGIN) through reverse / complement: still a CONTIG-only record the reader accepts
		vC01ContigPipeline(sh - (9 + 36*vTier()))
		return
	}
	op, shape := sh%9, sh/9
	const L = 5
	vPipeConcrete = op == 7
	gb, _ := vPipeRecord("h", L, shape)
	var out gts.Sequence
	i := vIntIn("i", 0, L)
	n := vIntIn("n", 0, L)
	switch op {
	case 0, 1:
		guest, _ := vPipeRecord("g", 2, 0)
		if op == 0 {
			out = gts.Insert(gb, i, guest)
		} else {
			out = gts.Embed(gb, i, guest)
		}
	case 2:
		vAssume(i+n <= L)
		out = gts.Delete(gb, i, n)
	case 3:
		vAssume(i+n <= L)
		out = gts.Erase(gb, i, n)
	case 4:
		out = gts.Slice(gb, i, n) // any window, wrap-around when n < i, empty when n == i
	case 5:
		out = gts.Rotate(gb, i-n)
	case 6:
		out = gts.Reverse(gb)
	case 7:
		out = gts.Complement(gb)
	default:
		other, _ := vPipeRecord("g", 2, 0)
		out = gts.Concat(gb, other)
	}
	text, err, p := vWriteGenBank(out)
	vAssert("write-no-panic", !p)
	if p {
		return
	}
	vAssert("write-ok", err == nil)
	if err != nil {
		return
	}
	vCover("written")
	recs, seqs, rerr := vScanAll([]byte(text), 2)
	vAssert("reader-accepts-own-output", vAnd(rerr == nil, recs == 1))
	if rerr != nil || recs != 1 {
		return
	}
	back, ok := seqs[0].(GenBank)
	vAssert("is-genbank", ok)
	if !ok {
		return
	}
	vAssert("same-residues", vSameBytes(back.Bytes(), out.Bytes()))
	vAssert("same-features", vSameFeatures(back.Table, out.Features()))
	text2, err2, p2 := vWriteGenBank(back)
	vAssert("rewrite-no-panic", !p2)
	if p2 || err2 != nil {
		return
	}
	vAssert("write-read-write-fixed-point", text2 == text)
	vObserve("len", len(text))
}

//verif:harness prop=C01 quick=2 thorough=4 merge=concrete timeout=1500
//verif:bounds multi-record framing: a stream of 2 (quick) / 2..3 (thorough) records written back to back (5, 0 (after deleting everything) and 3 residues; each with its own symbolic residues and feature coordinates) reads back as the same records in order, each equal to its single-record reading
func VH_C01_stream() {
	sh := vShard(2 + 2*vTier())
	lens := [][]int{{5, 3}, {3, 5}, {5, 0, 3}, {0, 5, 0}}[sh]
	buf := &bytes.Buffer{}
	w := NewWriter(buf, GenBankFile)
	var single []string
	var in []gts.Sequence
	for k, L := range lens {
		var seq gts.Sequence
		if L == 0 {
			gb, _ := vPipeRecord("r"+string(rune('0'+k)), 2, 0)
			seq = gts.Delete(gb, 0, 2) // an empty record as the edit operations produce it
		} else {
			gb, _ := vPipeRecord("r"+string(rune('0'+k)), L, 0)
			seq = gb
		}
		in = append(in, seq)
		t, err, p := vWriteGenBank(seq)
		vAssert("write-ok", vAnd(!p, err == nil))
		single = append(single, t)
		_, err = w.WriteSeq(seq)
		vAssert("write-ok", err == nil)
	}
	vCover("written")
	text := buf.String()
	all := ""
	for _, t := range single {
		all += t
	}
	vAssert("stream-is-concatenation-of-records", text == all)
	recs, seqs, err := vScanAll([]byte(text), len(lens)+1)
	vAssert("reader-accepts-stream", vAnd(err == nil, recs == len(lens)))
	if err != nil || recs != len(lens) {
		return
	}
	for k := range lens {
		vAssert("same-residues", vSameBytes(seqs[k].Bytes(), in[k].Bytes()))
		vAssert("same-features", vSameFeatures(seqs[k].Features(), in[k].Features()))
		t, werr, p := vWriteGenBank(seqs[k])
		vAssert("rewrite-ok", vAnd(!p, werr == nil))
		vAssert("framed-independently", t == single[k])
	}
	vObserve("len", len(text))
}

func vC01ContigPipeline(op int) {
	n := vIntIn("clen", 1, 9)
	gb := GenBank{
		Fields: GenBankFields{LocusName: "X", Molecule: gts.DNA, Topology: gts.Linear, Division: "UNK",
			Date: Date{2000, 1, 1}, Definition: "d", Accession: "A", Version: "A.1",
			Source: Organism{"s", "o", []string{"t"}},
			Contig: Contig{"C", gts.Segment{0, n}},
		},
		Origin: NewOrigin(nil),
	}
	var out gts.Sequence
	if op == 0 {
		out = gts.Reverse(gb)
	} else {
		out = gts.Complement(gb)
	}
	text, err, p := vWriteGenBank(out)
	vAssert("write-no-panic", !p)
	if p || err != nil {
		return
	}
	vCover("written")
	recs, seqs, rerr := vScanAll([]byte(text), 2)
	vAssert("reader-accepts-own-output", vAnd(rerr == nil, recs == 1))
	if rerr != nil || recs != 1 {
		return
	}
	back, ok := seqs[0].(GenBank)
	vAssert("is-genbank", ok)
	if !ok {
		return
	}
	vAssert("same-residues", len(back.Bytes()) == 0)
	vAssert("same-contig", vAnd(back.Fields.Contig.Accession == "C", vAnd(back.Fields.Contig.Region.Head() == 0, back.Fields.Contig.Region.Tail() == n)))
	text2, err2, p2 := vWriteGenBank(back)
	vAssert("rewrite-no-panic", !p2)
	if p2 || err2 != nil {
		return
	}
	vAssert("write-read-write-fixed-point", text2 == text)
	vObserve("len", len(text))
}
