package seqio

// C17 — FASTA output reads back identically.

import (
	"bytes"

	"github.com/go-gts/gts"
)

func vGenFasta(name string, dmax int, n int) Fasta {
	k := vChoice(name+".dn", dmax+1)
	desc := vBytes(name+".d", k)
	for _, c := range desc {
		vAssume(vAnd(c != '\n', c != '\r')) // descriptions without line breaks (C17's quantifier)
	}
	data := vBytesIn(name+".r", n, 33, 126)
	for _, c := range data {
		vAssume(c != '>')
	}
	return Fasta{string(desc), data}
}

func vSameBytes(a, b []byte) bool {
	if len(a) != len(b) {
		return false
	}
	ok := true
	for i := range a {
		ok = vAnd(ok, a[i] == b[i])
	}
	return ok
}

var vCRLF bool

func vC17(lengths []int, dmax int) {
	var in []Fasta
	buf := &bytes.Buffer{}
	w := NewWriter(buf, FastaFile)
	for i, n := range lengths {
		f := vGenFasta("f"+string(rune('0'+i)), dmax, n)
		in = append(in, f)
		_, err := w.WriteSeq(f)
		vAssert("write-ok", err == nil)
	}
	vCover("written")
	text := buf.Bytes()
	if vCRLF {
		// the same stream with CRLF line ends (C17's quantifier: LF and CRLF input)
		var t []byte
		for _, c := range text {
			if c == '\n' {
				t = append(t, '\r')
			}
			t = append(t, c)
		}
		text = t
	}
	recs, seqs, err := vScanAll(text, len(lengths)+1)
	vAssert("read-ok", err == nil)
	vAssert("same-count", recs == len(in))
	if recs != len(in) {
		return
	}
	for i, f := range in {
		g, ok := seqs[i].(Fasta)
		vAssert("is-fasta", ok)
		if !ok {
			return
		}
		vAssert("same-description", g.Desc == f.Desc)
		vAssert("same-residues", vSameBytes(g.Data, f.Data))
	}
	vObserve("recs", recs)
	vObserve("outlen", buf.Len())
}

//verif:harness prop=C17 quick=10 thorough=18 merge=concrete
//verif:bounds FASTA write->read: one or two records; description 0..2 (quick) / 0..4 (thorough) fully symbolic bytes without line breaks; residues symbolic over printable ASCII minus '>' with lengths {0,1,2,69,70,71,140,141} (quick) plus {139,142,209,210,211} and three-record streams (thorough); two shards re-read the written stream with CRLF line ends
func VH_C17_fasta_roundtrip() {
	dmax := 2 + 2*vTier()
	sh := vShard(10 + 8*vTier())
	if sh >= 8+8*vTier() {
		vCRLF = true
		if sh%2 == 0 {
			vC17([]int{71}, 1)
		} else {
			vC17([]int{1, 70}, 1)
		}
		return
	}
	switch sh {
	case 0:
		vC17([]int{0}, dmax)
	case 1:
		vC17([]int{1}, dmax)
	case 2:
		vC17([]int{70}, dmax)
	case 3:
		vC17([]int{69, 2}, 1)
	case 4:
		vC17([]int{71}, dmax)
	case 5:
		vC17([]int{140}, 1)
	case 6:
		vC17([]int{141}, 1)
	case 7:
		vC17([]int{0, 1}, dmax)
	case 8:
		vC17([]int{139}, 1)
	case 9:
		vC17([]int{142}, 1)
	case 10:
		vC17([]int{209}, 1)
	case 11:
		vC17([]int{210}, 1)
	case 12:
		vC17([]int{211}, 1)
	case 13:
		vC17([]int{1, 0, 2}, 1)
	case 14:
		vC17([]int{70, 70}, 1)
	default:
		vC17([]int{0, 0, 0}, 2)
	}
}

var _ gts.Sequence = Fasta{}

//verif:harness prop=C17 quick=2 thorough=4 merge=concrete
//verif:bounds GenBank->FASTA conversion: record with 1..2 symbolic version bytes and 0..2 definition bytes (any byte but CR; line breaks in the definition become blanks), residues of length {5,70} (quick) + {0,71} (thorough) symbolic over printable ASCII minus '>', whole record or a slice [1,4)
func VH_C17_genbank_to_fasta() {
	n := []int{5, 70, 0, 71}[vShard(2+2*vTier())]
	ver := vBytesIn("ver", 1+vChoice("vn", 2), 33, 126) // version: a non-blank word
	def := vBytes("def", vChoice("dn", 3))
	// a DEFINITION may run over several lines; on the one-line FASTA description the breaks become blanks
	flat := make([]byte, len(def))
	for i, c := range def {
		vAssume(c != '\r')
		flat[i] = byte(vIte(c == '\n', ' ', int(c)))
	}
	data := vBytesIn("r", n, 33, 126)
	for _, c := range data {
		vAssume(c != '>')
	}
	gb := GenBank{Fields: GenBankFields{LocusName: "X", Molecule: gts.DNA, Topology: gts.Linear, Date: Date{2000, 1, 1},
		Version: string(ver), Definition: string(def)}, Origin: NewOrigin(data)}
	var seq gts.Sequence = gb
	want := data
	wantDesc := string(ver) + " " + string(flat)
	if n >= 5 && vChoice("slice", 2) == 1 {
		seq = gts.Slice(gb, 1, 4)
		want = data[1:4]
		wantDesc = string(ver) + ":2-4 " + string(flat)
	}
	buf := &bytes.Buffer{}
	_, err := NewWriter(buf, FastaFile).WriteSeq(seq)
	vAssert("write-ok", err == nil)
	vCover("converted")
	recs, seqs, err := vScanAll(buf.Bytes(), 2)
	vAssert("read-ok", vAnd(err == nil, recs == 1))
	if recs != 1 {
		return
	}
	g, ok := seqs[0].(Fasta)
	vAssert("is-fasta", ok)
	if !ok {
		return
	}
	vAssert("residues-kept", vSameBytes(g.Data, want))
	vAssert("description", g.Desc == wantDesc)
	vObserve("outlen", buf.Len())
}
