package seqio

// C11 — operations never modify the metadata of their argument (GenBank header fields).

import (
	"github.com/go-gts/gts"
)

//verif:harness prop=C11 quick=6 thorough=6 merge=concrete timeout=1200
//verif:bounds GenBank record of 9 residues with three references (two with base ranges, one free text), a REGION-less header and a feature; one of slice | delete | insert | rotate | reverse | concat with symbolic arguments; afterwards every reference (number, base-range text, authors), the topology and the feature table of the ARGUMENT read as before, and the same operation applied again gives the same header
func VH_C11_fields_purity() {
	const L = 9
	op := vShard(6)
	refs := []Reference{{Number: 1, Info: "(bases 2 to 4; 6 to 8)", Authors: "a"}, {Number: 2, Info: "sites", Authors: "b"}, {Number: 3, Info: "(bases 5 to 9)", Authors: "c"}}
	// the caller's slice has spare capacity, as a table read from a file usually has
	refs = append(make([]Reference, 0, 6), refs...)
	ff := gts.FeatureSlice{{Key: "gene", Loc: gts.Range(1, 4), Props: gts.Props{}}}
	gb := GenBank{Fields: GenBankFields{LocusName: "X", Molecule: gts.DNA, Topology: gts.Circular, Date: Date{2000, 1, 1}, References: refs},
		Table: ff, Origin: NewOrigin([]byte("acgtacgta"))}
	s := vIntIn("s", 0, L-1)
	e := vIntIn("e", 1, L)
	vAssume(s < e)
	run := func() gts.Sequence {
		switch op {
		case 0:
			return gts.Slice(gb, s, e)
		case 1:
			return gts.Delete(gb, s, e-s)
		case 2:
			return gts.Insert(gb, s, gts.New(nil, nil, []byte("nn")))
		case 3:
			return gts.Rotate(gb, s)
		case 4:
			return gts.Reverse(gb)
		default:
			return gts.Concat(gb, gts.New(nil, nil, []byte("nn")))
		}
	}
	first := run()
	vCover("operated")
	want := []Reference{{Number: 1, Info: "(bases 2 to 4; 6 to 8)", Authors: "a"}, {Number: 2, Info: "sites", Authors: "b"}, {Number: 3, Info: "(bases 5 to 9)", Authors: "c"}}
	vAssert("references-length-unchanged", len(gb.Fields.References) == 3)
	for i := range want {
		if i < len(gb.Fields.References) {
			r := gb.Fields.References[i]
			vAssert("reference-unchanged", vAnd(r.Number == want[i].Number, vAnd(r.Info == want[i].Info, r.Authors == want[i].Authors)))
		}
	}
	full := refs[:cap(refs)]
	for i := 3; i < len(full); i++ {
		vAssert("reference-spare-slots-untouched", vAnd(full[i].Number == 0, full[i].Info == ""))
	}
	vAssert("topology-unchanged", gb.Fields.Topology == gts.Circular)
	vAssert("table-unchanged", vAnd(len(gb.Table) == 1, gb.Table[0].Loc.String() == "2..4"))
	vAssert("residues-unchanged", string(gb.Bytes()) == "acgtacgta")
	// the same call on the same argument gives the same header
	second := run()
	h1, ok1 := first.Info().(GenBankFields)
	h2, ok2 := second.Info().(GenBankFields)
	vAssert("same-kind-of-header", ok1 == ok2)
	if ok1 && ok2 {
		vAssert("repeatable-reference-count", len(h1.References) == len(h2.References))
		if len(h1.References) == len(h2.References) {
			for i := range h1.References {
				vAssert("repeatable-references", vAnd(h1.References[i].Number == h2.References[i].Number, h1.References[i].Info == h2.References[i].Info))
			}
		}
	}
	vObserve("len", len(first.Bytes()))
}
