package seqio

// C07 — parsers are total (package seqio entry points).

import (
	"bytes"
	"strings"

	"github.com/go-gts/gts"
)

func vTotal(name string, f func() error) {
	var err error
	p := vPanics(func() { err = f() })
	vAssert(name+"-no-panic", !p)
	if p {
		return
	}
	if err != nil {
		vCover(name + "-rejects")
	} else {
		vCover(name + "-accepts")
	}
}

// vScanAll drives a Scanner over the whole input; returns records read and the final error.
func vScanAll(input []byte, max int) (int, []gts.Sequence, error) {
	sc := NewAutoScanner(bytes.NewReader(input))
	n := 0
	var seqs []gts.Sequence
	for sc.Scan() {
		seqs = append(seqs, sc.Value())
		n++
		if n > max {
			vAssert("scan-terminates", false) // more records than bytes: the scanner is not consuming input
			break
		}
	}
	return n, seqs, sc.Err()
}

//verif:harness prop=C07 quick=5 thorough=8 merge=concrete
//verif:bounds every byte string of length 0..4 (quick) / 0..7 (thorough) as a sequence stream for NewAutoScanner (GenBank and FASTA parsers) and as input to AsDate; all bytes symbolic
func VH_C07_seqio_short() {
	n := 5
	if vTier() == 1 {
		n = 8
	}
	k := vShard(n)
	b := vBytes("s", k)
	vTotal("date", func() error { _, err := AsDate(string(b)); return err })
	vTotal("scanner", func() error { _, _, err := vScanAll(b, k+1); return err })
	vObserve("k", k)
}

// vSmallRecord builds a small valid record through the real writer.
func vSmallRecord(withOrigin bool) string {
	props := gts.Props{}
	props.Add("mol_type", "x")
	gb := GenBank{
		Fields: GenBankFields{
			LocusName: "X", Molecule: gts.DNA, Topology: gts.Linear, Division: "UNK",
			Date: Date{2000, 1, 1}, Definition: "d", Accession: "A", Version: "A.1",
			Keywords: nil, Source: Organism{"s", "o", []string{"t"}},
			References: []Reference{{Number: 1, Info: "(bases 1 to 4)", Authors: "a"}},
		},
		Table:  gts.FeatureSlice{{Key: "source", Loc: gts.Range(0, 4), Props: props}},
		Origin: NewOrigin([]byte("acgt")),
	}
	gb.Fields.DBLink.Set("BioProject", "P1")
	if !withOrigin {
		gb.Origin = NewOrigin(nil)
		gb.Fields.Contig = Contig{"C", gts.Segment{0, 4}}
	}
	if vCRLFRecord {
		return strings.ReplaceAll(gb.String(), "\n", "\r\n")
	}
	return gb.String()
}

// vCRLFRecord: the small record with CRLF line ends (C07: "LF or CRLF").
var vCRLFRecord bool

//verif:harness prop=C07 quick=1 thorough=1 merge=concrete
//verif:bounds sanity: the small valid records (with ORIGIN / CONTIG-only / with ORIGIN and CRLF line ends) produced by the real writer are accepted by the real reader (concrete execution through the engine; calibrates the mutation harnesses)
func VH_C07_genbank_baseline() {
	defer func() { vCRLFRecord = false }() // natively all harnesses of a package share the globals
	for k := 0; k < 3; k++ {
		vCRLFRecord = k == 2
		text := vSmallRecord(k != 1)
		n, seqs, err := vScanAll([]byte(text), 3)
		vCover("baseline")
		vAssert("baseline-accepted", vAnd(err == nil, n == 1))
		if n == 1 && k != 1 {
			vAssert("baseline-residues", string(seqs[0].Bytes()) == "acgt")
		}
		vObserve("len", len(text))
	}
}

func vIsBase(c byte) bool { return vAnd(33 <= c, c <= 126) }

// vMutate applies one structure-aware edit at a concrete offset with a symbolic byte.
//   op 0 truncate at o   1 flip byte o to c   2 delete byte o   3 insert c before o
//   4 delete the line containing o   5 duplicate the line containing o
func vMutate(text []byte, op, o int, c byte) []byte {
	out := make([]byte, 0, len(text)+64)
	switch op {
	case 0:
		out = append(out, text[:o]...)
	case 1:
		out = append(out, text...)
		out[o] = c
	case 2:
		out = append(out, text[:o]...)
		out = append(out, text[o+1:]...)
	case 3:
		out = append(out, text[:o]...)
		out = append(out, c)
		out = append(out, text[o:]...)
	default:
		ls, le := o, o
		for ls > 0 && text[ls-1] != '\n' {
			ls--
		}
		for le < len(text) && text[le] != '\n' {
			le++
		}
		if le < len(text) {
			le++
		}
		out = append(out, text[:ls]...)
		if op == 5 {
			out = append(out, text[ls:le]...)
			out = append(out, text[ls:le]...)
		}
		out = append(out, text[le:]...)
	}
	return out
}

func vC07Mutation(withOrigin bool, op int, shard, nshards int) {
	n := len(vSmallRecord(withOrigin))
	// concrete offset chosen among those of this shard
	cnt := (n - shard + nshards - 1) / nshards
	o := shard + nshards*vChoice("o", cnt)
	vC07MutationAt(withOrigin, op, o)
}

func vC07MutationAt(withOrigin bool, op int, o int) {
	text := []byte(vSmallRecord(withOrigin))
	n := len(text)
	c := vByte("c")
	in := vMutate(text, op, o, c)
	var recs int
	var seqs []gts.Sequence
	var err error
	p := vPanics(func() { recs, seqs, err = vScanAll(in, len(in)+1) })
	vAssert("no-panic", !p)
	if p {
		return
	}
	vCover("scanned")
	if err != nil {
		vCover("rejected")
		return
	}
	vCover("accepted-or-empty")
	if op == 0 {
		// a proper prefix of a record is not a record: only the empty stream and the
		// record minus its final newline may be read without error
		eol := 1
		if vCRLFRecord {
			eol = 2 // the record minus its final CRLF (or minus the LF of it) is still the whole record
		}
		vAssert("truncation-reported", vOr(vAnd(o == 0, recs == 0), vAnd(o >= n-eol, recs == 1)))
		return
	}
	isGB := false
	if recs >= 1 {
		_, isGB = seqs[0].(GenBank) // a flipped first byte can turn the text into a (valid) FASTA record
		// ... but only the first byte: a GenBank record that goes wrong later is an error, never a FASTA record
		// that starts in the middle of the stream
		vAssert("not-misread-as-fasta", vOr(isGB, in[0] == '>'))
	}
	if !withOrigin && recs >= 1 && isGB {
		// CONTIG-only record: the declared length must be the length of the contig region
		gb := seqs[0].(GenBank)
		lenPos := bytes.Index(text, []byte(" bp")) - 1
		declared := 4
		if op == 1 && o == lenPos {
			declared = int(c) - '0'
		}
		vAssert("contig-length-consistent", vAnd(len(gb.Bytes()) == 0, gb.Fields.Contig.Region.Len() == declared))
	}
	if withOrigin && recs >= 1 && isGB {
		// accepted: residues read == declared length == residue characters present in the ORIGIN block
		got := len(seqs[0].Bytes())
		declOff := 40 // "LOCUS       X" + padding; the %10d length field ends at column 40 (0-based 39)
		_ = declOff
		// locate fields in the *original* text (offsets are concrete)
		lenPos := bytes.Index(text, []byte(" bp")) - 1 // last digit of the declared length
		dataPos := bytes.Index(text, []byte("acgt"))
		declared := 4
		if op == 1 && o == lenPos {
			declared = int(c) - '0' // a flipped digit (non-digits cannot be accepted)
			vAssert("declared-digit", vAnd('0' <= c, c <= '9'))
		}
		present := 4
		if op == 1 && o >= dataPos && o < dataPos+4 {
			present = 3 + vIte(vIsBase(c), 1, 0)
		}
		if op == 2 && o >= dataPos && o < dataPos+4 {
			present = 3
		}
		if op == 3 && o > dataPos && o <= dataPos+4 {
			present = 4 + vIte(vIsBase(c), 1, 0)
		}
		if (op == 4 || op == 5) && o >= dataPos-10 && o < dataPos+5 {
			present = 4 * (op - 4) * 2 // line deleted: 0 residues; duplicated: 8
		}
		vAssert("length-consistent", vAnd(got == declared, got == present))
	}
	vObserve("recs", recs)
}

//verif:harness prop=C07 quick=16 thorough=16 merge=concrete steps=400000000 timeout=1500
//verif:bounds one structure-aware edit of a small valid GenBank record with ORIGIN (about 480 bytes, produced by the real writer): truncate at every offset and flip every byte to a fully symbolic byte (all 256 values); offsets enumerated, byte symbolic
func VH_C07_genbank_mutation_origin() {
	s := vShard(16)
	vC07Mutation(true, vChoice("op", 2), s, 16)
}

//verif:harness prop=C07 quick=4 thorough=16 merge=concrete steps=400000000 timeout=1500
//verif:bounds the same record with CRLF line ends (the reader's slow ORIGIN path): accepted unedited; truncate at every offset and flip every byte to a fully symbolic byte; quick: every fourth offset
func VH_C07_genbank_mutation_crlf() {
	vCRLFRecord = true
	defer func() { vCRLFRecord = false }()
	if vTier() == 0 {
		s := vShard(4)
		vC07Mutation(true, vChoice("op", 2), 4*s, 16)
		return
	}
	s := vShard(16)
	vC07Mutation(true, vChoice("op", 2), s, 16)
}

//verif:harness prop=C07 quick=0 thorough=16 merge=concrete steps=800000000 timeout=3000
//verif:bounds thorough: delete a byte / insert a symbolic byte / delete a line / duplicate a line at every offset of the ORIGIN record; truncate and flip on the CONTIG-only record
func VH_C07_genbank_mutation_more() {
	s := vShard(16)
	op := vChoice("op", 6)
	vC07Mutation(op >= 2, op, s, 16)
}

//verif:harness prop=C07 quick=2 thorough=4 merge=concrete timeout=1500
//verif:bounds indent edits: the LOCUS line of the small valid record keeps 1..11 of its 12 pad columns after the word LOCUS (so every field name becomes longer than, equal to, or shorter than the indent), combined with a symbolic byte flipped into the first column of the following field line; and field lines with 0..3 of their leading indent columns removed
func VH_C07_genbank_indent() {
	sh := vShard(2 + 2*vTier())
	text := []byte(vSmallRecord(sh%2 == 0))
	var in []byte
	if sh < 2 {
		keep := 1 + vChoice("keep", 11)
		// "LOCUS" + 7 spaces + name: keep only `keep` of the 7 spaces
		if keep > 7 {
			keep = 7
		}
		in = append(append([]byte{}, text[:5+keep]...), text[12:]...)
	} else {
		// remove k leading columns of the ORGANISM continuation line / a qualifier line
		k := 1 + vChoice("k", 3)
		pos := bytes.Index(text, []byte("\n            t."))
		if sh == 3 {
			pos = bytes.Index(text, []byte("\n                     /"))
		}
		in = append(append([]byte{}, text[:pos+1]...), text[pos+1+k:]...)
	}
	c := vByte("c")
	if vChoice("flip", 2) == 1 {
		nl := bytes.IndexByte(in, '\n')
		in[nl+1] = c
	}
	var err error
	p := vPanics(func() { _, _, err = vScanAll(in, len(in)+1) })
	vAssert("no-panic", !p)
	if p {
		return
	}
	vCover("indent-scanned")
	_ = err
	vObserve("len", len(in))
}

//verif:harness prop=C07 quick=1 thorough=1 merge=concrete timeout=1500
//verif:bounds the CONTIG-only small record: truncate at / flip (symbolic byte) every offset of its CONTIG line and of the LOCUS length field
func VH_C07_genbank_mutation_contig() {
	text := []byte(vSmallRecord(false))
	start := bytes.Index(text, []byte("CONTIG"))
	end := start + bytes.IndexByte(text[start:], '\n') + 1
	lenPos := bytes.Index(text, []byte(" bp")) - 1
	offs := []int{lenPos - 1, lenPos}
	for o := start; o <= end && o < len(text); o++ {
		offs = append(offs, o)
	}
	o := offs[vChoice("o", len(offs))]
	op := vChoice("op", 2)
	vC07MutationAt(false, op, o)
}

// vReplaceAfter replaces the n bytes that follow the first occurrence of marker by repl.
func vReplaceAfter(text []byte, marker string, n int, repl []byte) []byte {
	i := bytes.Index(text, []byte(marker)) + len(marker)
	out := append([]byte{}, text[:i]...)
	out = append(out, repl...)
	return append(out, text[i+n:]...)
}

//verif:harness prop=C07 quick=8 thorough=8 merge=concrete timeout=1500
//verif:bounds field values of the small valid record replaced by 1..3 (quick) / 1..5 (thorough) fully symbolic bytes: REFERENCE number, DBLINK value, CONTIG text, VERSION, feature location, qualifier value, date; and the LOCUS length replaced by large concrete values (10^18-1, 2^62, 2^63-1)
func VH_C07_genbank_field_values() {
	sh := vShard(8)
	withOrigin := sh != 2
	text := []byte(vSmallRecord(withOrigin))
	var in []byte
	if sh == 7 {
		big := []string{"999999999999999999", "4611686018427387904", "9223372036854775807"}[vChoice("big", 3)]
		in = vReplaceAfter(text, "X                 ", 10, []byte(big))
	} else {
		k := 1 + vChoice("k", 3+2*vTier())
		if sh == 0 {
			k = 2 + vChoice("k4", 3) // the REFERENCE number: 2..4 bytes (a sign and three digits, four digits)
		}
		v := vBytes("v", k)
		for _, c := range v {
			vAssume(vAnd(c != '\n', c != '\r')) // the line structure is kept; line edits are the mutation harness's job
		}
		switch sh {
		case 0:
			in = vReplaceAfter(text, "REFERENCE   ", 1, v)
		case 1:
			in = vReplaceAfter(text, "DBLINK      ", 14, v)
		case 2:
			in = vReplaceAfter(text, "CONTIG      ", 11, v)
		case 3:
			in = vReplaceAfter(text, "VERSION     ", 3, v)
		case 4:
			in = vReplaceAfter(text, "     source          ", 4, v)
		case 5:
			in = vReplaceAfter(text, "/mol_type=", 3, v)
		default:
			in = vReplaceAfter(text, "UNK ", 11, v)
		}
	}
	var recs int
	var seqs []gts.Sequence
	var err error
	p := vPanics(func() { recs, seqs, err = vScanAll(in, len(in)+1) })
	vAssert("no-panic", !p)
	if p {
		return
	}
	vCover("field-scanned")
	if err == nil && recs >= 1 {
		// whatever the reader accepts, the writer must be able to write again
		if gb, ok := seqs[0].(GenBank); ok {
			pw := vPanics(func() { _ = gb.String() })
			vAssert("accepted-record-writable", !pw)
		}
	}
	vObserve("recs", recs)
}
