package seqio

// C16 — ORIGIN block layout: (a) length arithmetic for every length.

//verif:harness prop=C16 quick=1 thorough=1 nomerge=1
//verif:bounds toOriginLength/fromOriginLength for every n in [0, 4*10^18] (one symbolic n; no loop)
func VH_C16_length_arith() {
	n := vIntIn("n", 0, 4000000000000000000)
	b := toOriginLength(n)
	vCover("arith")
	vAssert("roundtrip", fromOriginLength(b) == n)
	// independent layout formula: 76 bytes per full line (9 index + 6*(1+10) + newline);
	// a last line of r residues: 9 + ceil(r/10) spaces + r residues + newline
	q, r := n/60, n%60
	want := 76*q + vIte(r > 0, 10+11*(r/10)+vIte(r%10 > 0, r%10+1, 0), 0)
	vAssert("layout-formula", b == want)
	m := vIntIn("m", 0, 4000000000000000000)
	vAssume(n < m)
	vAssert("strictly-monotone", b < toOriginLength(m))
	vObserve("b", b)
}
