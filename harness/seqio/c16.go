package seqio

// C16 — ORIGIN block layout: (a) length arithmetic for every length.

import "github.com/go-pars/pars"

//verif:harness prop=C16 quick=1 thorough=1 nomerge=1
//verif:bounds the two arithmetic functions toOriginLength/fromOriginLength for every n in [0, 4*10^18] (one symbolic n; no loop); this is consistency of the arithmetic only: the block NewOrigin actually lays out agrees with it while the line index fits nine columns (n <= 1,000,000,020; beyond that NewOrigin panics, an observation recorded in DESIGN §6, outside what the layout harness with n <= 250 runs)
func VH_C16_length_arith() {
	n := vIntIn("n", 0, 4000000000000000000)
	b := toOriginLength(n)
	vCover("arith")
	vAssert("roundtrip", fromOriginLength(b) == n)
	// independent layout formula: 76 bytes per full line (9 index + 6*(1+10) + newline);
	// a last line of r residues: 9 + ceil(r/10) spaces + r residues + newline
	q, r := n/60, n%60
	want := 76*q + vIte(r > 0, 10+11*(r/10)+vIte(r%10 > 0, r%10+1, 0), 0)
	vAssert("layout-formula", b == want)
	m := vIntIn("m", 0, 4000000000000000000)
	vAssume(n < m)
	vAssert("strictly-monotone", b < toOriginLength(m))
	vObserve("b", b)
}

// ---- (b) layout ------------------------------------------------------------------

// vExpectedOrigin lays the block out independently of the code under test.
func vExpectedOrigin(p []byte) []byte {
	var out []byte
	for i := 0; i < len(p); i += 60 {
		idx := i + 1
		var digs []byte
		for idx > 0 {
			digs = append([]byte{byte('0' + idx%10)}, digs...)
			idx /= 10
		}
		for k := len(digs); k < 9; k++ {
			out = append(out, ' ')
		}
		out = append(out, digs...)
		for j := i; j < i+60 && j < len(p); j++ {
			if (j-i)%10 == 0 {
				out = append(out, ' ')
			}
			out = append(out, p[j])
		}
		out = append(out, '\n')
	}
	return out
}

func vSameBytes16(a, b []byte) bool {
	if len(a) != len(b) {
		return false
	}
	ok := true
	for i := range a {
		ok = vAnd(ok, a[i] == b[i])
	}
	return ok
}

//verif:harness prop=C16 quick=8 thorough=16 merge=concrete
//verif:bounds (b) layout for every length 0..130 (quick) / 0..250 (thorough) with symbolic printable residues: NewOrigin buffer == independent layout, length == toOriginLength, Bytes()==input, Len() without decoding, String() idempotent
func VH_C16_layout() {
	ns := 8 + 8*vTier()
	max := 130 + 120*vTier()
	s := vShard(ns)
	cnt := (max + 1 - s + ns - 1) / ns
	n := s + ns*vChoice("n", cnt)
	p := vBytesIn("p", n, 33, 126)
	o := NewOrigin(p)
	vCover("laid-out")
	vAssert("buffer-length", len(o.Buffer) == toOriginLength(n))
	vAssert("layout", vSameBytes16(o.Buffer, vExpectedOrigin(p)))
	vAssert("len-without-decoding", vAnd(o.Len() == n, !o.Parsed))
	s1 := o.String()
	q := o.Bytes()
	vAssert("bytes-roundtrip", vSameBytes16(q, p))
	vAssert("len-after-decoding", o.Len() == n)
	vAssert("string-idempotent", o.String() == s1)
	vAssert("arg-unchanged", vSameBytes16(p, q)) // p itself still reads the same
	vObserve("n", n)
	vObserve("buflen", len(s1))
}

// ---- (c) fast validation path vs slow line-by-line path ------------------------------

func vIsBlank(c byte) bool { return vOr(c == ' ', vOr(c == '\t', vOr(c == '\r', vOr(c == '\v', c == '\f')))) }

//verif:harness prop=C16 quick=8 thorough=16 merge=concrete timeout=1200
//verif:bounds (c) declared length n in 0..7 (quick) / 0..15 (thorough); the ORIGIN block is toOriginLength(n)+k fully symbolic bytes (k in 0..1), every byte ranges over all 256 values; validateOrigin and slowGenBankOriginParser run on the same block
func VH_C16_fast_vs_slow() {
	ns := 8 + 8*vTier()
	n := vShard(ns)
	k := vChoice("k", 2)
	m := toOriginLength(n)
	blk := vBytes("b", m+k)
	// fast path on the first m bytes (the reader requests exactly m bytes)
	fastErr := validateOrigin(blk[:m], n, pars.Position{})
	fastOK := fastErr == nil
	// slow path on the whole block
	st := pars.FromBytes(append([]byte{}, blk...))
	var res pars.Result
	var slowErr error
	p := vPanics(func() { slowErr = slowGenBankOriginParser(n)(st, &res) })
	vAssert("slow-no-panic", !p)
	if p {
		return
	}
	slowOK := slowErr == nil
	vCover("compared")
	if fastOK {
		vCover("fast-accepts")
		// canonical block: the slow path must accept it too and give the same residues
		vAssert("slow-accepts-canonical", slowOK)
		if slowOK {
			a := (&Origin{append([]byte{}, blk[:m]...), false}).Bytes()
			b := (&Origin{res.Token, false}).Bytes()
			vAssert("same-residues", vSameBytes16(a, b))
		}
	}
	if slowOK && !fastOK {
		vCover("slow-only")
		// the slow path is more lenient only about line ends / trailing blanks:
		// its output is a canonical block, and that block validates
		vAssert("slow-output-canonical", validateOrigin(res.Token, n, pars.Position{}) == nil)
		vAssert("slow-output-length", len(res.Token) == m)
	}
	if slowOK {
		got := (&Origin{res.Token, false}).Bytes()
		vAssert("slow-residue-count", len(got) == n)
	}
	vObserve("n", n)
}

// ---- (c') the reader's two paths on canonical blocks of every length ---------------------

//verif:harness prop=C16 quick=8 thorough=16 merge=concrete
//verif:bounds the ORIGIN field reader (makeGenbankOriginParser: fast validation, slow line-by-line fallback) on the block NewOrigin produces for every length 0..130 (quick) / 0..250 (thorough) with symbolic printable residues, in three spellings: LF (fast path), CRLF line ends and a trailing blank on every line (slow path): all accepted, same residues
func VH_C16_reader_paths() {
	ns := 8 + 8*vTier()
	max := 130 + 120*vTier()
	s := vShard(ns)
	cnt := (max + 1 - s + ns - 1) / ns
	n := s + ns*vChoice("n", cnt)
	p := vBytesIn("p", n, 33, 126)
	blk := NewOrigin(p).Buffer
	spelling := vChoice("spelling", 3)
	var text []byte
	text = append(text, []byte("ORIGIN      \n")...)
	for _, c := range blk {
		if c == '\n' {
			switch spelling {
			case 1:
				text = append(text, '\r')
			case 2:
				text = append(text, ' ')
			}
		}
		text = append(text, c)
	}
	text = append(text, []byte("//\n")...)
	gb := &GenBank{Origin: NewOrigin(nil)}
	st := pars.FromBytes(text)
	var res pars.Result
	err := makeGenbankOriginParser(n)(gb, 12)(st, &res)
	vCover("read")
	vAssert("canonical-block-accepted", err == nil)
	if err != nil {
		return
	}
	got := gb.Origin.Bytes()
	vAssert("same-residues", vSameBytes16(got, p))
	vAssert("length-without-decoding", (&Origin{append([]byte{}, gb.Origin.Buffer...), gb.Origin.Parsed}).Len() == n)
	vObserve("n", n)
}

//verif:harness prop=C16 quick=4 thorough=8 merge=concrete
//verif:bounds the ORIGIN field reader on blocks that do NOT have the declared length, in the same three spellings (LF fast path; CRLF and trailing blanks slow path): block of 5 | 60 | 65 | 25 (thorough also 10 | 59 | 120 | 78) symbolic residues read with a declared length one less, one more, or cut back to the previous group boundary (surplus on the same line), or followed by one surplus sequence line: rejected in every spelling (the two paths accept the same blocks)
func VH_C16_reader_paths_malformed() {
	vOriginMalformed([]int{5, 60, 65, 25, 10, 59, 120, 78}[vShard(4+4*vTier())])
}

//verif:harness prop=C07 quick=4 thorough=8 merge=concrete
//verif:bounds an ORIGIN block whose residue count differs from the declared length (one less, one more, cut back to the previous group boundary with the surplus on the same line, one surplus line), block of 5 | 60 | 65 | 25 (thorough also 10 | 59 | 120 | 78) symbolic residues, LF, CRLF and trailing-blank spellings: reported as an error, never read as a shortened sequence
func VH_C07_origin_declared_length() {
	vOriginMalformed([]int{5, 60, 65, 25, 10, 59, 120, 78}[vShard(4+4*vTier())])
}

func vOriginMalformed(n int) {
	p := vBytesIn("p", n, 33, 126)
	blk := NewOrigin(p).Buffer
	defect := vChoice("defect", 4)
	declared := n
	switch defect {
	case 0:
		declared = n - 1
	case 1:
		declared = n + 1
	case 2:
		// the declared length ends on a group boundary and the surplus residues follow on the same line
		declared = n - n%10
		if n%10 == 0 {
			declared = n - 10
		}
	default:
		// one more line in the layout of the block: index, blank, residues
		extra := NewOrigin(append(append([]byte{}, p...), vBytesIn("x", 3, 33, 126)...)).Buffer
		if n%60 == 0 {
			blk = extra // the surplus residues start a new line
		} else {
			blk = append(append([]byte{}, blk...), []byte("       999 abc\n")...)
		}
	}
	spelling := vChoice("spelling", 3)
	var text []byte
	text = append(text, []byte("ORIGIN      \n")...)
	for _, c := range blk {
		if c == '\n' {
			switch spelling {
			case 1:
				text = append(text, '\r')
			case 2:
				text = append(text, ' ')
			}
		}
		text = append(text, c)
	}
	text = append(text, []byte("//\n")...)
	gb := &GenBank{Origin: NewOrigin(nil)}
	st := pars.FromBytes(text)
	var res pars.Result
	var err error
	pn := vPanics(func() { err = makeGenbankOriginParser(declared)(gb, 12)(st, &res) })
	vAssert("no-panic", !pn)
	if pn {
		return
	}
	vCover("read")
	vAssert("inconsistent-block-rejected-on-both-paths", err != nil)
	vObserve("n", n)
}
