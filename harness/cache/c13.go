package cache

// C13 — a cache entry is returned only if it is exactly what was written.

import "io"

// vHash: model of hash.Hash (DESIGN §2.5): accumulates the input; the digest is an
// uninterpreted function of it (natively SHA-1 truncated to Size bytes).
type vHash struct{ buf []byte }

func (h *vHash) Write(p []byte) (int, error) {
	h.buf = append(append([]byte{}, h.buf...), p...)
	return len(p), nil
}
func (h *vHash) Sum(b []byte) []byte {
	d0, d1 := vDigest(h.buf, 0), vDigest(h.buf, 1)
	if vIsModel() {
		// no collision between any two inputs hashed on this path (whatever the code chooses to hash)
		cur := append([]byte{}, h.buf...)
		for _, prev := range vHashedC13 {
			if len(prev) != len(cur) {
				vAssume(!vAnd(vDigest(prev, 0) == d0, vDigest(prev, 1) == d1))
				continue
			}
			vAssume(vImplies(!vSame(prev, cur), !vAnd(vDigest(prev, 0) == d0, vDigest(prev, 1) == d1)))
		}
		vHashedC13 = append(vHashedC13, cur)
	}
	return append(append([]byte{}, b...), d0, d1)
}

var vHashedC13 [][]byte
func (h *vHash) Reset()         { h.buf = nil }
func (h *vHash) Size() int      { return 2 }
func (h *vHash) BlockSize() int { return 1 }

func vSame(a, b []byte) bool {
	if len(a) != len(b) {
		return false
	}
	ok := true
	for i := range a {
		ok = vAnd(ok, a[i] == b[i])
	}
	return ok
}

func vNonZero(a []byte) bool {
	nz := false
	for _, c := range a {
		nz = vOr(nz, c != 0)
	}
	return nz
}

func vDigest2(data []byte) []byte { return []byte{vDigest(data, 0), vDigest(data, 1)} }

// vNoCollision assumes the model hash does not collide on these two inputs.
func vNoCollision(a, b []byte) {
	vAssume(vImplies(!vSame(a, b), !vSame(vDigest2(a), vDigest2(b))))
}

func vReadAll(f *File) ([]byte, error) {
	var out []byte
	buf := make([]byte, 4)
	for k := 0; k < 64; k++ {
		n, err := f.Read(buf)
		out = append(out, buf[:n]...)
		if err == io.EOF {
			return out, nil
		}
		if err != nil {
			return out, err
		}
	}
	return out, io.ErrNoProgress
}

// vWriteEntry writes one finished entry and returns the file name and its content.
func vWriteEntry(dir string, h *vHash, rsum, dsum, body []byte) (string, []byte) {
	f, err := Create(dir, h, rsum, dsum)
	vAssert("create-ok", err == nil)
	n, err := f.Write(body)
	vAssert("write-ok", vAnd(err == nil, n == len(body)))
	vAssert("close-ok", f.Close() == nil)
	names := vFSList(dir)
	name := names[len(names)-1]
	for _, nm := range names {
		if nm != name {
			c, _ := vFSRead(nm)
			if len(c) >= 4 && false {
				_ = c
			}
		}
	}
	content, ok := vFSRead(name)
	vAssert("file-exists", ok)
	return name, content
}

//verif:harness prop=C13 quick=8 thorough=8 merge=none
//verif:bounds model hash with 2-byte digests (header = 6 bytes; the code is parametric in Size()); body of 0..3 (quick) / 0..6 (thorough) symbolic bytes; one fault per shard: none | flip any file byte by any non-zero mask | truncate to any shorter length | append 1..2 symbolic bytes | open with other root/data digests | another entry's content under this name | crash after placeholder header + any body prefix | crash after full body + any prefix of the final header
//verif:assume in-memory file system (Read returns all requested bytes or EOF), flate = self-delimiting framing that is buffered until Close (not real DEFLATE), digest = uninterpreted function with no collision between any two inputs hashed on a path; root digest of a real input is not all-zero
func VH_C13_cache_faults() {
	fault := vShard(8)
	dir := vTempDir()
	h := &vHash{}
	rsum, dsum := vBytes("rsum", 2), vBytes("dsum", 2)
	vAssume(vNonZero(rsum))
	n := vChoice("n", 4+3*vTier())
	body := vBytes("body", n)
	name, fin := vWriteEntry(dir, h, rsum, dsum, body)
	if vIsModel() {
		// model flate framing: header + one chunk [hi lo body] (when the body is not empty) + terminator [0 0]
		want := 6 + 2
		if n > 0 {
			want += 2 + n
		}
		vAssert("finished-size", len(fin) == want)
	}
	cur := append([]byte{}, fin...)
	orsum, odsum := rsum, dsum
	switch fault {
	case 0:
	case 1:
		o := vChoice("o", len(fin))
		m := vByte("mask")
		vAssume(m != 0)
		cur[o] ^= m
	case 2:
		cur = cur[:vChoice("t", len(fin))]
	case 3:
		cur = append(cur, vBytes("tail", 1+vChoice("k", 2))...)
	case 4:
		orsum, odsum = vBytes("rsum2", 2), vBytes("dsum2", 2)
		vAssume(!vAnd(vSame(orsum, rsum), vSame(odsum, dsum)))
	case 5:
		// another entry (other digests, other body) ends up under this entry's name
		r2, d2 := vBytes("rsum2", 2), vBytes("dsum2", 2)
		vAssume(!vAnd(vSame(r2, rsum), vSame(d2, dsum)))
		dir2 := vTempDir()
		_, other := vWriteEntry2(dir2, r2, d2, vBytes("body2", vChoice("n2", 3)))
		cur = other
	case 6:
		// crash before finalisation: the real protocol is run up to the crash point (Create,
		// then Write of a body prefix) in a second directory and the file is taken as it is then
		p := vChoice("p", n+1)
		dir2 := vTempDir()
		f2, err2 := Create(dir2, &vHash{}, rsum, dsum)
		vAssert("create-ok", err2 == nil)
		if p > 0 || vChoice("wrote", 2) == 1 {
			f2.Write(body[:p])
		}
		crashed := vFSList(dir2)
		c, _ := vFSRead(crashed[len(crashed)-1])
		cur = c
		if !vIsModel() {
			// natively flate buffers: what is on disk after a crash is at least the header
			cur = c
		}
	default:
		k := vChoice("k", 6)
		cur = append(append(make([]byte, 0), fin[:k]...), make([]byte, 6-k)...)
		cur = append(cur, fin[6:]...) // the stored body (natively compressed)
	}
	if len(cur) > 6 && len(fin) > 6 {
		vNoCollision(cur[6:], fin[6:])
	} else if len(cur) >= 6 {
		vNoCollision(cur[6:], fin[6:])
	}
	vFSWrite(name, cur)
	vCover("faulted")
	// observed here, not after Open: whether a header prefix equals the final header depends on digest
	// values the native hash does not reproduce
	vObserve("n", n)
	f, err := Open(dir, h, orsum, odsum)
	if err != nil {
		vCover("open-fails")
		vAssert("no-fault-opens", fault != 0)
		// Open may still hand back a *File together with the error: it must not be usable as a hit
		return
	}
	vCover("open-succeeds")
	// success is only allowed when the file is exactly the finished entry opened with its own digests
	vAssert("opened-only-if-intact", vAnd(vSame(cur, fin), vAnd(vSame(orsum, rsum), vSame(odsum, dsum))))
	got, rerr := vReadAll(f)
	vAssert("read-ok", rerr == nil)
	vAssert("reads-what-was-written", vSame(got, body))
	f.Close()
}

func vWriteEntry2(dir string, rsum, dsum, body []byte) (string, []byte) {
	return vWriteEntry(dir, &vHash{}, rsum, dsum, body)
}
