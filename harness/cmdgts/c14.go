package main

// C14 — caching is transparent: cached runs equal uncached runs.

import (
	"os"

	"github.com/go-gts/flags"

	"github.com/go-gts/gts"
	"github.com/go-gts/gts/seqio"
)

func vPlainRecord(name string, n int) (seqio.GenBank, []byte) {
	data := vBytesIn(name, n, 'a', 'z')
	gb := seqio.GenBank{
		Fields: seqio.GenBankFields{LocusName: "X", Molecule: gts.DNA, Topology: gts.Linear, Division: "UNK",
			Date: seqio.Date{Year: 2000, Month: 1, Day: 1}, Definition: "d", Accession: "A", Version: "A.1",
			Source: seqio.Organism{Species: "s", Name: "o", Taxon: []string{"t"}}},
		Origin: seqio.NewOrigin(data),
	}
	return gb, data
}

func vSameB(a, b []byte) bool {
	if len(a) != len(b) {
		return false
	}
	ok := true
	for i := range a {
		ok = vAnd(ok, a[i] == b[i])
	}
	return ok
}

type vInv struct {
	recs  []gts.Sequence
	stdin []byte
	args  []string
	fail  bool
}

//verif:harness prop=C14 quick=5 thorough=9 merge=none models=scan,term,hash timeout=1500
//verif:bounds protocol layer through the real `gts delete`: histories of 2 invocations over one cache directory; each invocation = (input record of 4 symbolic residues, same as or different from the first; locator `2` or `3`; input well-formed or malformed after its first record; one shard: first invocation with -o x.fasta, second to stdout); real ioDelegate/TryCache/cache.File/writer; compared with the same invocation under --no-cache
//verif:assume scanner = queue of the records (fails after them when the input is malformed), in-memory file system, flate framing model, uninterpreted digests without collisions between the inputs compared, json.Marshal modelled by an injective structural encoding (the real encodePayload runs)
func VH_C14_history() {
	sh := vShard(5 + 4*vTier())
	toFile := false
	if sh == 4+4*vTier() {
		// the first invocation writes FASTA to a file chosen with -o; the second prints to stdout
		toFile, sh = true, 0
	}
	recA, dataA := vPlainRecord("a", 4)
	recB, dataB := vPlainRecord("b", 4)
	vAssume(!vSameB(dataA, dataB))
	mk := func(which, loc int, fail bool) vInv {
		rec, data := recA, dataA
		if which == 1 {
			rec, data = recB, dataB
		}
		stdin := append(append([]byte{}, data...), byte(loc))
		if fail {
			stdin = append(stdin, '!')
		}
		return vInv{[]gts.Sequence{rec}, stdin, []string{[]string{"2", "3"}[loc]}, fail}
	}
	// shard: (second input same/different) x (second locator same/different); thorough adds failing first/second runs
	h := []vInv{mk(0, 0, sh >= 4 && sh%2 == 0), mk(sh%2, (sh/2)%2, sh >= 6)}
	home := "/cache-home"
	outdir := "/out"
	if !vIsModel() {
		home = vTempDir()
		outdir = vTempDir()
	}
	if toFile {
		h[0].args = append([]string{"-o", outdir + "/x.fasta"}, h[0].args...)
	}
	var baseOut [][]byte
	var baseOK []bool
	for _, inv := range h {
		out, ok := vRunCached("delete", deleteFunc, append([]string{"--no-cache"}, inv.args...), inv.recs, inv.stdin, inv.fail, home)
		baseOut, baseOK = append(baseOut, out), append(baseOK, ok)
	}
	vCover("baseline")
	for k, inv := range h {
		out, ok := vRunCached("delete", deleteFunc, inv.args, inv.recs, inv.stdin, inv.fail, home)
		vAssert("same-exit-status", ok == baseOK[k])
		vAssert("same-output", vSameB(out, baseOut[k]))
	}
	// a third, identical, invocation hits the warm cache
	out, ok := vRunCached("delete", deleteFunc, h[1].args, h[1].recs, h[1].stdin, h[1].fail, home)
	vAssert("warm-same-exit-status", ok == baseOK[1])
	vAssert("warm-same-output", vSameB(out, baseOut[1]))
	vObserve("len", len(baseOut[0]))
}

//verif:harness prop=C14 quick=2 thorough=2 merge=none models=scan,term,hash timeout=1500
//verif:bounds crash histories through the real `gts delete 5..6`: a stream of two records, the first of 6 symbolic residues, the second of 4 (the command panics on it after the first record has been written: slice bounds in gts.Delete; shard 0) or of 6 (no crash; shard 1); the same invocation three times over one cache directory (cold, then twice more); a panic unwinds the command (deferred calls run) and ends the process before main() reaches closeCaches; each run's status (ok / error / crash) and stdout bytes equal those of the --no-cache run
//verif:assume scanner = queue of the records, in-memory file system, flate framing model, uninterpreted digests, json.Marshal modelled by an injective structural encoding (the real encodePayload runs); bytes written to a file before the crash stay written
func VH_C14_crash_history() {
	sh := vShard(2)
	recA, _ := vPlainRecord("a", 6)
	recB, _ := vPlainRecord("b", 4+2*sh)
	recs := []gts.Sequence{recA, recB}
	stdin := []byte("two-records")
	home := "/cache-home"
	if !vIsModel() {
		home = vTempDir()
	}
	baseOut, baseSt := vRunCachedP("delete", deleteFunc, []string{"--no-cache", "5..6"}, recs, stdin, home)
	vCover("baseline")
	vAssert("baseline-status", baseSt == 2-2*sh)
	for k := 0; k < 3; k++ {
		out, st := vRunCachedP("delete", deleteFunc, []string{"5..6"}, recs, stdin, home)
		vAssert("same-exit-status", st == baseSt)
		vAssert("same-output", vSameB(out, baseOut))
	}
	vObserve("len", len(baseOut))
}

//verif:harness prop=C14 quick=1 thorough=1 merge=none models=scan,term,hash timeout=1500
//verif:bounds secondary input of `gts annotate`: histories of 2 invocations over one cache directory on the same record (4 symbolic residues), the feature-table file (one path) holding `gene 1..2` or `gene 2..3` or `gene 1..2 /note="x"` at each invocation, chosen independently (so the file may change between the runs, or not); real annotateFunc (INSDC table parser on the file bytes, digest of what it read), ioDelegate, TryCache, cache.File, writer; each run and a third identical one compared with the same invocation under --no-cache
//verif:assume scanner = queue of the records, in-memory file system, flate framing model, uninterpreted digests without collisions between the inputs compared, json.Marshal modelled by an injective structural encoding (the real encodePayload runs)
func VH_C14_annotate_history() {
	rec, data := vPlainRecord("a", 4)
	tables := []string{"     gene            1..2\n", "     gene            2..3\n", "     gene            1..2\n                     /note=\"x\"\n"}
	home, path := "/cache-home", "/t/feat.tbl"
	if !vIsModel() {
		home = vTempDir()
		path = vTempDir() + "/feat.tbl"
	}
	put := func(k int) {
		if vIsModel() {
			vFSWrite(path, []byte(tables[k]))
		} else if err := os.WriteFile(path, []byte(tables[k]), 0o644); err != nil {
			panic(err)
		}
	}
	stdin := append([]byte{}, data...)
	pick := []int{vChoice("t1", 3), vChoice("t2", 3)}
	var baseOut [][]byte
	var baseOK []bool
	for _, k := range pick {
		put(k)
		out, ok := vRunCached("annotate", annotateFunc, []string{"--no-cache", path}, []gts.Sequence{rec}, stdin, false, home)
		baseOut, baseOK = append(baseOut, out), append(baseOK, ok)
	}
	vCover("baseline")
	vAssert("baseline-ok", vAnd(baseOK[0], baseOK[1]))
	for i, k := range pick {
		put(k)
		out, ok := vRunCached("annotate", annotateFunc, []string{path}, []gts.Sequence{rec}, stdin, false, home)
		vAssert("same-exit-status", ok == baseOK[i])
		vAssert("same-output", vSameB(out, baseOut[i]))
	}
	out, ok := vRunCached("annotate", annotateFunc, []string{path}, []gts.Sequence{rec}, stdin, false, home)
	vAssert("warm-same-exit-status", ok == baseOK[1])
	vAssert("warm-same-output", vSameB(out, baseOut[1]))
	vObserve("len", len(baseOut[0]))
}

func vSameSeqs(a, b []gts.Sequence) bool {
	if len(a) != len(b) {
		return false
	}
	ok := true
	for i := range a {
		ok = vAnd(ok, vSameB(a[i].Bytes(), b[i].Bytes()))
		fa, fb := a[i].Features(), b[i].Features()
		if len(fa) != len(fb) {
			return false
		}
		for j := range fa {
			x, y := vAtomsC(fa[j].Loc), vAtomsC(fb[j].Loc)
			if len(x) != len(y) || fa[j].Key != fb[j].Key || !vSameProps(fa[j].Props, fb[j].Props) {
				return false
			}
			for k := range x {
				ok = vAnd(ok, vAnd(vAnd(x[k].s == y[k].s, x[k].e == y[k].e), x[k].rev == y[k].rev))
			}
		}
	}
	return ok
}

// vSameProps: same qualifier names and values in the same order (concrete strings in the harnesses that use it)
func vSameProps(a, b gts.Props) bool {
	if len(a) != len(b) {
		return false
	}
	for i := range a {
		if len(a[i]) != len(b[i]) {
			return false
		}
		for j := range a[i] {
			if a[i][j] != b[i][j] {
				return false
			}
		}
	}
	return true
}

func vClearCache(dir string) {
	for _, n := range vFSList(dir) {
		vFSRemove(n)
	}
}

//verif:harness prop=C14 quick=8 thorough=8 merge=concrete timeout=1500
//verif:bounds key completeness by self-composition: each of extract / delete / insert / query (-H and the -n list: none | gene | gene,note | note,gene) / search (-e, --no-complement) / select (-v, -s forward) / sort (-r) / join (-c) is run twice on the same concrete record (acgta with a forward and a complement gene) on a cold cache with two independently chosen option vectors (extract: -v and the locator list [gene] | [gene@^] | [gene, gene@^] | ["gene gene@^"]; delete: -e; insert: -e; these two with locator gene or gene@^); whenever the two runs use the same cache key (the entry name = digest of input digest and payload digest) their outputs must be equal
//verif:assume outputs are compared as emitted sequences (capturing writer); json.Marshal modelled by an injective structural encoding (the real encodePayload runs)
func VH_C14_key_completeness() {
	cmd := vShard(8)
	// a concrete record: the quantifier of this harness is the option vector
	var ff gts.FeatureSlice
	ff = ff.Insert(gts.Feature{Key: "gene", Loc: gts.Range(1, 3), Props: gts.Props{[]string{"gene", "ga"}, []string{"note", "na"}}})
	ff = ff.Insert(gts.Feature{Key: "gene", Loc: gts.Range(2, 5).Complement(), Props: gts.Props{[]string{"gene", "gb"}, []string{"note", "nb"}}})
	gb, _ := vPlainRecord("kc", 0)
	gb.Origin = seqio.NewOrigin([]byte("acgta"))
	gb.Table = ff
	gb2, _ := vPlainRecord("kd", 0)
	gb2.Origin = seqio.NewOrigin([]byte("tt"))
	cacheDir := "/cache/gts-cache"
	if !vIsModel() {
		home := vTempDir()
		os.Setenv("XDG_CACHE_HOME", home)
		cacheDir = home + "/gts-cache"
	}
	run := func(tag string) ([]byte, []gts.Sequence, bool) {
		opt := vBool(tag + ".opt")
		loc := "gene"
		if vBool(tag + ".loc") {
			loc = "gene@^"
		}
		var args []string
		switch cmd {
		case 0:
			if opt {
				args = append(args, "-v")
			}
			// extract takes a list of locators: one, the other, both, or one argument that spells both
			switch vChoice(tag+".locs", 4) {
			case 0:
				args = append(args, "gene")
			case 1:
				args = append(args, "gene@^")
			case 2:
				args = append(args, "gene", "gene@^")
			default:
				args = append(args, "gene gene@^")
			}
		case 1:
			if opt {
				args = append(args, "-e")
			}
			args = append(args, loc)
		case 3:
			// gts query: a table of qualifier values; the columns follow the order of the -n options
			if opt {
				args = append(args, "-H")
			}
			switch vChoice(tag+".names", 4) {
			case 0:
				args = append(args, "-n", "gene")
			case 1:
				args = append(args, "-n", "gene", "-n", "note")
			case 2:
				args = append(args, "-n", "note", "-n", "gene")
			default:
			}
		case 4: // search: -e, --no-complement
			if opt {
				args = append(args, "-e")
			}
			if loc != "gene" {
				args = append(args, "--no-complement")
			}
			args = append(args, "@cg")
		case 5: // select: -v, -s forward
			if opt {
				args = append(args, "-v")
			}
			if loc != "gene" {
				args = append(args, "-s", "forward")
			}
			args = append(args, "gene")
		case 6: // sort: -r (two records)
			if opt {
				args = append(args, "-r")
			}
		case 7: // join: -c (two records)
			if opt {
				args = append(args, "-c")
			}
		default:
			if opt {
				args = append(args, "-e")
			}
			args = append(args, loc, "@XY")
		}
		vClearCache(cacheDir)
		if vIsModel() {
			vResetStdio([]byte("in"))
		}
		var out []gts.Sequence
		var err error
		switch cmd {
		case 0:
			out, err = vRunCmd("extract", extractFunc, args, []gts.Sequence{gb})
		case 1:
			out, err = vRunCmd("delete", deleteFunc, args, []gts.Sequence{gb})
		case 4:
			out, err = vRunCmd("search", searchFunc, args, []gts.Sequence{gb})
		case 5:
			out, err = vRunCmd("select", selectFunc, args, []gts.Sequence{gb})
		case 6:
			out, err = vRunCmd("sort", sortFunc, args, []gts.Sequence{gb, gb2})
		case 7:
			out, err = vRunCmd("join", joinFunc, args, []gts.Sequence{gb, gb2})
		case 3:
			// query prints a table, not sequences: compare the bytes written to stdout
			var text []byte
			text, err = vRunRaw("query", queryFunc, args, []gts.Sequence{gb})
			out = []gts.Sequence{gts.New(nil, nil, text)}
		default:
			out, err = vRunCmd("insert", insertFunc, args, []gts.Sequence{gb})
		}
		closeCaches(err == nil)
		// the cache key of the run = the name of the entry it created (digest of input digest + payload digest)
		var key []byte
		for _, n := range vFSList(cacheDir) {
			key = append(key, []byte(n[len(cacheDir):])...)
		}
		return key, out, err == nil
	}
	p1, o1, ok1 := run("r1")
	p2, o2, ok2 := run("r2")
	vCover("two-runs")
	same := vSameB(p1, p2)
	vAssert("payload-recorded", vAnd(len(p1) > 0, len(p2) > 0))
	vAssert("equal-key-equal-status", vImplies(same, ok1 == ok2))
	vAssert("equal-key-equal-output", vImplies(same, vSameSeqs(o1, o2)))
	vObserve("n1", len(o1))
}

//verif:harness prop=C14 quick=7 thorough=7 merge=concrete timeout=1500
//verif:bounds key completeness by self-composition, remaining commands: each of rotate (locator gene | gene@^ | gene@$) / split (same locators) / infix (-e; locator gene | gene@^; host file) / pick (list 1 | 2 | 1,2 | 2-; -f) / summary (-F, -Q) / define (key gene | CDS; location 1..2 | complement(1..2) | thorough: 2..3; -q none | a=b | a=b,c=d | c=d,a=b | thorough: a=c) / clear, reverse, complement, repair (no options: the command name itself is the only key component, checked pairwise between the four) is run twice on the same concrete records on a cold cache with two independently chosen option vectors; whenever the two runs use the same cache key (entry name) their outputs and statuses must be equal
//verif:assume outputs are compared as emitted sequences (capturing writer; summary: bytes written to stdout); json.Marshal modelled by an injective structural encoding (the real encodePayload runs)
func VH_C14_key_completeness_more() {
	cmd := vShard(7)
	var ff gts.FeatureSlice
	ff = ff.Insert(gts.Feature{Key: "gene", Loc: gts.Range(1, 3), Props: gts.Props{[]string{"gene", "ga"}, []string{"note", "na"}}})
	ff = ff.Insert(gts.Feature{Key: "gene", Loc: gts.Range(2, 5).Complement(), Props: gts.Props{[]string{"gene", "gb"}, []string{"note", "nb"}}})
	gb, _ := vPlainRecord("kc", 0)
	gb.Origin = seqio.NewOrigin([]byte("acgta"))
	gb.Table = ff
	if cmd == 0 {
		gb.Fields.Topology = gts.Circular
	}
	gb2, _ := vPlainRecord("kd", 0)
	gb2.Origin = seqio.NewOrigin([]byte("tt"))
	cacheDir := "/cache/gts-cache"
	hostPath := "/h/host.gb"
	if !vIsModel() {
		home := vTempDir()
		os.Setenv("XDG_CACHE_HOME", home)
		cacheDir = home + "/gts-cache"
		if cmd == 2 {
			hostPath = home + "/host.gb"
			f, err := os.Create(hostPath)
			if err != nil {
				panic(err)
			}
			if _, err := seqio.NewWriter(f, seqio.GenBankFile).WriteSeq(gb); err != nil {
				panic(err)
			}
			f.Close()
		}
	} else if cmd == 2 {
		vFSWrite(hostPath, []byte("host"))
	}
	run := func(tag string) ([]byte, []gts.Sequence, bool) {
		opt := vBool(tag + ".opt")
		var args []string
		var fn flags.Function
		name := ""
		in := []gts.Sequence{gb}
		raw := false
		switch cmd {
		case 0, 1:
			name, fn = "rotate", rotateFunc
			if cmd == 1 {
				name, fn = "split", splitFunc
			}
			switch vChoice(tag+".loc", 3) {
			case 0:
				args = append(args, "gene")
			case 1:
				args = append(args, "gene@^")
			default:
				args = append(args, "gene@$")
			}
		case 2:
			name, fn = "infix", infixFunc
			if opt {
				args = append(args, "-e")
			}
			if vBool(tag + ".loc") {
				args = append(args, "gene@^")
			} else {
				args = append(args, "gene")
			}
			args = append(args, hostPath)
			in = []gts.Sequence{gb2}
		case 3:
			name, fn = "pick", pickFunc
			if opt {
				args = append(args, "-f")
			}
			switch vChoice(tag+".list", 4) {
			case 0:
				args = append(args, "1")
			case 1:
				args = append(args, "2")
			case 2:
				args = append(args, "1,2")
			default:
				args = append(args, "2-")
			}
			in = []gts.Sequence{gb, gb2}
		case 4:
			name, fn, raw = "summary", summaryFunc, true
			if opt {
				args = append(args, "-F")
			}
			if vBool(tag + ".q") {
				args = append(args, "-Q")
			}
		case 5:
			name, fn = "define", defineFunc
			switch vChoice(tag+".props", 4+vTier()) {
			case 0:
			case 1:
				args = append(args, "-q", "a=b")
			case 2:
				args = append(args, "-q", "a=b", "-q", "c=d")
			case 3:
				args = append(args, "-q", "c=d", "-q", "a=b")
			default:
				args = append(args, "-q", "a=c")
			}
			if opt {
				args = append(args, "CDS")
			} else {
				args = append(args, "gene")
			}
			switch vChoice(tag+".at", 2+vTier()) {
			case 0:
				args = append(args, "1..2")
			case 1:
				args = append(args, "complement(1..2)")
			default:
				args = append(args, "2..3")
			}
		default:
			switch vChoice(tag+".which", 4) {
			case 0:
				name, fn = "clear", clearFunc
			case 1:
				name, fn = "reverse", reverseFunc
			case 2:
				name, fn = "complement", complementFunc
			default:
				name, fn = "repair", repairFunc
			}
		}
		vClearCache(cacheDir)
		if vIsModel() {
			vResetStdio([]byte("in"))
		}
		var out []gts.Sequence
		var err error
		if raw {
			var text []byte
			text, err = vRunRaw(name, fn, args, in)
			out = []gts.Sequence{gts.New(nil, nil, text)}
		} else {
			if cmd == 2 {
				vSecondary = [][]gts.Sequence{{gb}}
			}
			out, err = vRunCmd(name, fn, args, in)
			vSecondary = nil
		}
		closeCaches(err == nil)
		var key []byte
		for _, n := range vFSList(cacheDir) {
			key = append(key, []byte(n[len(cacheDir):])...)
		}
		return key, out, err == nil
	}
	p1, o1, ok1 := run("r1")
	p2, o2, ok2 := run("r2")
	vCover("two-runs")
	same := vSameB(p1, p2)
	vAssert("payload-recorded", vAnd(len(p1) > 0, len(p2) > 0))
	vAssert("equal-key-equal-status", vImplies(same, ok1 == ok2))
	vAssert("equal-key-equal-output", vImplies(same, vSameSeqs(o1, o2)))
	vObserve("n1", len(o1))
}

// vRunReal: one invocation with the real scanner and the real writer (no queue/capture model): stdin bytes in,
// stdout bytes and exit status out.
func vRunReal(name string, fn flags.Function, args []string, stdin []byte, home string) ([]byte, bool) {
	ctx := &flags.Context{Name: []string{"gts", name}, Args: args}
	if vIsModel() {
		vResetStdio(stdin)
		err := fn(ctx)
		closeCaches(err == nil)
		out, _ := vFSRead("/dev/stdout")
		return out, err == nil
	}
	dir := vTempDir()
	if err := os.WriteFile(dir+"/in", stdin, 0o644); err != nil {
		panic(err)
	}
	fin, err := os.Open(dir + "/in")
	if err != nil {
		panic(err)
	}
	fout, err := os.Create(dir + "/out")
	if err != nil {
		panic(err)
	}
	os.Setenv("XDG_CACHE_HOME", home)
	cerr := func() error {
		oldIn, oldOut := os.Stdin, os.Stdout
		defer func() { os.Stdin, os.Stdout = oldIn, oldOut }()
		os.Stdin, os.Stdout = fin, fout
		err := fn(ctx)
		closeCaches(err == nil)
		return err
	}()
	fin.Close()
	fout.Close()
	out, _ := os.ReadFile(dir + "/out")
	return out, cerr == nil
}

//verif:harness prop=C14 quick=2 thorough=4 merge=concrete models=term,hash timeout=1500
//verif:bounds secondary inputs through the real scanner and writer: gts insert (guest) and gts search (query) on a concrete FASTA host; history of two invocations over one cache directory, one with the literal argument @a (quick) / @ac (thorough) and one with a file of as many symbolic ASCII bytes (so also unparsable files and files that spell a literal), in either order; each compared with its --no-cache run
//verif:assume in-memory file system, flate framing model, uninterpreted digests without collisions between the inputs compared, json.Marshal modelled by an injective structural encoding (the real encodePayload runs)
func VH_C14_secondary_input() {
	sh := vShard(2 + 2*vTier())
	home, gdir := "/cache-home", "/g"
	if !vIsModel() {
		home, gdir = vTempDir(), vTempDir()
	}
	litS := "@a"
	if vTier() == 1 {
		litS = "@ac"
	}
	content := vBytes("file", len(litS))
	for _, c := range content {
		vAssume(c < 128) // non-ASCII bytes reach utf8 decoding in bytes.ToLower (outside the engine's byte model)
	}
	path := gdir + "/guest"
	if vIsModel() {
		vFSWrite(path, content)
	} else if err := os.WriteFile(path, content, 0o644); err != nil {
		panic(err)
	}
	stdin := []byte(">h\nAAAATTTT\n")
	name, fn := "insert", insertFunc
	lit, file := []string{"5", litS}, []string{"5", path}
	if sh%2 == 1 {
		name, fn = "search", searchFunc
		// FASTA output drops the annotations a search adds: the search shards read a GenBank record
		stdin = []byte("LOCUS       X                          8 bp    DNA     linear   UNK 01-JAN-2000\nDEFINITION  d.\nACCESSION   A\nVERSION     A.1\nKEYWORDS    .\nSOURCE      s\n  ORGANISM  o\n            t.\nFEATURES             Location/Qualifiers\n     source          1..8\n                     /mol_type=\"x\"\nORIGIN      \n        1 aaaatttt\n//\n")
		lit, file = []string{litS}, []string{path}
	}
	h := [][]string{lit, file}
	if sh >= 2 {
		h = [][]string{file, lit}
	}
	var baseOut [][]byte
	var baseOK []bool
	for _, args := range h {
		out, ok := vRunReal(name, fn, append([]string{"--no-cache"}, args...), stdin, home)
		baseOut, baseOK = append(baseOut, out), append(baseOK, ok)
	}
	vCover("baseline")
	for k, args := range h {
		out, ok := vRunReal(name, fn, args, stdin, home)
		vAssert("same-exit-status", ok == baseOK[k])
		vAssert("same-output", vSameB(out, baseOut[k]))
	}
	vObserve("len", len(baseOut[0]))
}

//verif:harness prop=C14 quick=2 thorough=4 merge=none models=scan,term,hash timeout=1500
//verif:bounds secondary input files of gts insert (guest) and gts infix (host): history of two invocations over one cache directory on the same primary input and locator, with two different FASTA files that hold the same residues differently (one record xy | two records x, y; x, y symbolic letters) or, thorough, the same file twice; each compared with its --no-cache run
//verif:assume scanners = queues of the records the files hold (natively the real scanner reads the real files), in-memory file system, flate framing model, uninterpreted digests without collisions between the inputs compared, json.Marshal modelled by an injective structural encoding
func VH_C14_secondary_records() {
	sh := vShard(2 + 2*vTier())
	home, gdir := "/cache-home", "/g"
	if !vIsModel() {
		home, gdir = vTempDir(), vTempDir()
	}
	xy := vBytesIn("xy", 2, 'a', 'z')
	one := []gts.Sequence{seqio.Fasta{Desc: "g", Data: []byte{xy[0], xy[1]}}}
	two := []gts.Sequence{seqio.Fasta{Desc: "g", Data: []byte{xy[0]}}, seqio.Fasta{Desc: "h", Data: []byte{xy[1]}}}
	text1 := append(append([]byte(">g\n"), xy[0], xy[1]), '\n')
	text2 := append(append(append([]byte(">g\n"), xy[0]), []byte("\n>h\n")...), xy[1], '\n')
	put := func(name string, content []byte) string {
		path := gdir + "/" + name
		if vIsModel() {
			vFSWrite(path, content)
		} else if err := os.WriteFile(path, content, 0o644); err != nil {
			panic(err)
		}
		return path
	}
	p1, p2 := put("one.fasta", text1), put("two.fasta", text2)
	files := []string{p1, p2}
	queues := [][]gts.Sequence{one, two}
	if sh >= 2 {
		files, queues = []string{p1, p1}, [][]gts.Sequence{one, one} // the same file twice: the second run is a hit
	}
	rec, data := vPlainRecord("a", 4)
	name, fn := "insert", insertFunc
	if sh%2 == 1 {
		name, fn = "infix", infixFunc
	}
	stdin := append([]byte{}, data...)
	run := func(k int, nocache bool) ([]byte, bool) {
		args := []string{"2", files[k]}
		if nocache {
			args = append([]string{"--no-cache"}, args...)
		}
		vSecondary = [][]gts.Sequence{queues[k]}
		out, ok := vRunCached(name, fn, args, []gts.Sequence{rec}, stdin, false, home)
		vSecondary = nil
		return out, ok
	}
	var baseOut [][]byte
	var baseOK []bool
	for k := range files {
		out, ok := run(k, true)
		baseOut, baseOK = append(baseOut, out), append(baseOK, ok)
	}
	vCover("baseline")
	for k := range files {
		out, ok := run(k, false)
		vAssert("same-exit-status", ok == baseOK[k])
		vAssert("same-output", vSameB(out, baseOut[k]))
	}
	vObserve("len", len(baseOut[0]))
}
