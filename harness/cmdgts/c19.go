package main

// C19 at the command line: gts select applies the selector algebra to the feature table.

import (
	"github.com/go-gts/gts"
)

//verif:harness prop=C19 quick=2 thorough=2 merge=concrete timeout=1200
//verif:bounds gts select on a record of 5 residues with three features whose keys are drawn from {gene, cds, misc} and whose strands are symbolic; selector lists [gene] | [gene, cds]; options: plain / -v, strand both / forward: a feature is kept iff (it matches some selector and the strand filter) differs from -v; kept features come in table order, unaltered
func VH_C19_select_cmd() {
	invert := vShard(2) == 1
	L := 5
	gb, _ := vPlainRecord("sel", 0)
	gb.Origin = nil
	rec, _ := vPlainRecord("sel", L)
	keys := []string{"gene", "cds", "misc"}
	var ff gts.FeatureSlice
	type want struct {
		key string
		rev bool
	}
	var ws []want
	for k := 0; k < 3; k++ {
		key := keys[vChoice("key"+string(rune('0'+k)), 3)]
		var loc gts.Location = gts.Range(k, k+2)
		rev := vBool("rev" + string(rune('0'+k)))
		if rev {
			loc = loc.Complement()
		}
		p := gts.Props{}
		p.Add("tag", string(rune('0'+k)))
		ff = ff.Insert(gts.Feature{Key: key, Loc: loc, Props: p})
		ws = append(ws, want{key, rev})
	}
	rec.Table = ff
	two := vBool("two")
	fwdOnly := vBool("fwd")
	var args []string
	args = append(args, "--no-cache")
	if invert {
		args = append(args, "-v")
	}
	if fwdOnly {
		args = append(args, "-s", "forward")
	}
	args = append(args, "gene")
	if two {
		args = append(args, "cds")
	}
	out, err := vRunCmd("select", selectFunc, args, []gts.Sequence{rec})
	vAssert("command-ok", err == nil)
	vAssert("one-record", len(out) == 1)
	if err != nil || len(out) != 1 {
		return
	}
	vCover("selected")
	got := out[0].Features()
	// expected: table order of the input (rec.Table), each feature kept iff accepted
	j := 0
	for _, f := range rec.Table {
		k := int(f.Props[0][1][0] - '0')
		match := ws[k].key == "gene" || (two && ws[k].key == "cds")
		if invert {
			match = !match // -v negates the whole disjunction of selectors
		}
		acc := match && (!fwdOnly || !ws[k].rev)
		if acc {
			vAssert("accepted-feature-kept", j < len(got))
			if j < len(got) {
				vAssert("kept-in-table-order-unaltered", vAnd(got[j].Key == f.Key, got[j].Loc.String() == f.Loc.String()))
			}
			j++
		}
	}
	vAssert("nothing-else-kept", j == len(got))
	vObserve("kept", len(got))
	_ = gb
}
