package main

// Driver for cmd/gts command functions (DESIGN §4 C15/C14).  Under the symbolic
// engine the sequence scanner is a queue of harness-built (symbolic) records and
// the writer captures the emitted sequences; natively the same records are written
// to a real file that becomes os.Stdin, the real command runs, and its real output
// is parsed back — so a counterexample replays against the real reader, writer and
// command.

import (
	"errors"
	"hash"
	"io"
	"os"

	"github.com/go-gts/flags"
	"github.com/go-gts/gts"
	"github.com/go-gts/gts/seqio"
)

var vQueue []gts.Sequence
var vQPos int
var vOut []gts.Sequence

// Scanner model: every scanner a command creates reads from a queue of harness-built records.  The scanners
// created before the main input's (the guest of insert, the query of search, the host of infix) take their
// records from vSecondary, in creation order, and drain their reader first (the command hashes the file
// bytes on the way); the main scanner reads vQueue.
var vScanners []*seqio.Scanner
var vScanQ [][]gts.Sequence
var vScanPos []int
var vScanLast int
var vSecondary [][]gts.Sequence

func vResetScanners() {
	vScanners, vScanQ, vScanPos, vScanLast = nil, nil, nil, 0
}

//verif:model github.com/go-gts/gts/seqio.NewAutoScanner group=scan
func vm_NewAutoScanner(r io.Reader) *seqio.Scanner {
	s := new(seqio.Scanner)
	k := len(vScanners)
	vScanners = append(vScanners, s)
	if k < len(vSecondary) {
		buf := make([]byte, 64)
		for {
			if _, err := r.Read(buf); err != nil {
				break
			}
		}
		vScanQ = append(vScanQ, vSecondary[k])
	} else {
		vScanQ = append(vScanQ, vQueue)
	}
	vScanPos = append(vScanPos, 0)
	vQPos = 0
	return s
}

//verif:model (*github.com/go-gts/gts/seqio.Scanner).Scan group=scan
func vm_Scan(s *seqio.Scanner) bool {
	k := -1
	for i, x := range vScanners {
		if x == s {
			k = i
		}
	}
	if k < 0 {
		panic("model scanner: unknown scanner")
	}
	vScanLast = k
	if vScanPos[k] < len(vScanQ[k]) {
		vScanPos[k]++
		vQPos = vScanPos[k]
		return true
	}
	return false
}

//verif:model (github.com/go-gts/gts/seqio.Scanner).Value group=scan
func vm_Value(s seqio.Scanner) gts.Sequence { return vScanQ[vScanLast][vScanPos[vScanLast]-1] }

//verif:model (github.com/go-gts/gts/seqio.Scanner).Err group=scan
func vm_Err(s seqio.Scanner) error {
	main := vScanLast >= len(vSecondary)
	if vScanFail && main && vScanPos[vScanLast] >= len(vScanQ[vScanLast]) {
		return errScanModel
	}
	return nil
}

var vScanFail bool
var errScanModel = errors.New("model scanner: malformed record")

type vCapture struct{}

func (vCapture) WriteSeq(seq gts.Sequence) (int, error) {
	// the real writer must be able to format whatever a command emits
	if gb, ok := seq.(seqio.GenBank); ok {
		p := vPanics(func() { _ = gb.String() })
		vAssert("emitted-record-writable", !p)
	}
	vOut = append(vOut, seq)
	return 1, nil
}

//verif:model github.com/go-gts/gts/seqio.NewWriter group=capture
func vm_NewWriter(w io.Writer, ft seqio.FileType) seqio.SeqWriter { return vCapture{} }

//verif:model github.com/go-gts/gts/cmd.IsTerminal group=term
func vm_IsTerminal(fd uintptr) bool { return false }

// vHashM: model hash (digest = uninterpreted function of the input, natively SHA-1).
type vHashM struct{ buf []byte }

func (h *vHashM) Write(p []byte) (int, error) {
	h.buf = append(append([]byte{}, h.buf...), p...)
	return len(p), nil
}
func (h *vHashM) Sum(b []byte) []byte {
	d0, d1 := vDigest(h.buf, 0), vDigest(h.buf, 1)
	if vIsModel() {
		// collision-freeness between every pair of inputs hashed on this path (DESIGN §2.5)
		cur := append([]byte{}, h.buf...)
		for _, prev := range vHashed {
			same := len(prev) == len(cur)
			if same {
				for i := range cur {
					same = vAnd(same, prev[i] == cur[i])
				}
			}
			vAssume(vImplies(!same, !vAnd(vDigest(prev, 0) == d0, vDigest(prev, 1) == d1)))
		}
		vHashed = append(vHashed, cur)
	}
	return append(append([]byte{}, b...), d0, d1)
}

var vHashed [][]byte
func (h *vHashM) Reset()         { h.buf = nil }
func (h *vHashM) Size() int      { return 2 }
func (h *vHashM) BlockSize() int { return 1 }

//verif:model github.com/go-gts/gts/cmd/gts.newHash group=hash
func vm_newHash() hash.Hash { return &vHashM{} }

// vRunCmd runs one command function on the given records and returns what it emitted.
func vRunCmd(name string, fn flags.Function, args []string, in []gts.Sequence) ([]gts.Sequence, error) {
	ctx := &flags.Context{Name: []string{"gts", name}, Desc: "", Args: args}
	if vIsModel() {
		vQueue, vQPos, vOut = in, 0, nil
		vResetScanners()
		err := fn(ctx)
		return vOut, err
	}
	// native: real files for stdin/stdout
	dir := vTempDir()
	fin, err := os.Create(dir + "/in.gb")
	if err != nil {
		panic(err)
	}
	w := seqio.NewWriter(fin, seqio.GenBankFile)
	for _, s := range in {
		if _, err := w.WriteSeq(s); err != nil {
			panic(err)
		}
	}
	fin.Seek(0, io.SeekStart)
	fout, err := os.Create(dir + "/out.gb")
	if err != nil {
		panic(err)
	}
	cerr := func() error {
		oldIn, oldOut := os.Stdin, os.Stdout
		defer func() { os.Stdin, os.Stdout = oldIn, oldOut }()
		os.Stdin, os.Stdout = fin, fout
		return fn(ctx)
	}()
	fin.Close()
	fout.Close()
	f2, err := os.Open(dir + "/out.gb")
	if err != nil {
		panic(err)
	}
	defer f2.Close()
	sc := seqio.NewAutoScanner(f2)
	var out []gts.Sequence
	for sc.Scan() {
		out = append(out, sc.Value())
	}
	if e := sc.Err(); e != nil && cerr == nil {
		cerr = e
	}
	return out, cerr
}

// vRunRaw: like vRunCmd for commands that print something other than sequences (gts query): the records go in
// on stdin, the bytes written to stdout come back.
func vRunRaw(name string, fn flags.Function, args []string, in []gts.Sequence) ([]byte, error) {
	ctx := &flags.Context{Name: []string{"gts", name}, Desc: "", Args: args}
	if vIsModel() {
		vQueue, vQPos, vOut = in, 0, nil
		vResetScanners()
		err := fn(ctx)
		text, _ := vFSRead("/dev/stdout")
		return text, err
	}
	dir := vTempDir()
	fin, err := os.Create(dir + "/in.gb")
	if err != nil {
		panic(err)
	}
	w := seqio.NewWriter(fin, seqio.GenBankFile)
	for _, s := range in {
		if _, err := w.WriteSeq(s); err != nil {
			panic(err)
		}
	}
	fin.Seek(0, io.SeekStart)
	fout, err := os.Create(dir + "/out.txt")
	if err != nil {
		panic(err)
	}
	cerr := func() error {
		oldIn, oldOut := os.Stdin, os.Stdout
		defer func() { os.Stdin, os.Stdout = oldIn, oldOut }()
		os.Stdin, os.Stdout = fin, fout
		return fn(ctx)
	}()
	fin.Close()
	fout.Close()
	text, _ := os.ReadFile(dir + "/out.txt")
	return text, cerr
}

// ---- oracle vocabulary (ranges on either strand only) --------------------------------

type vAtomC struct {
	s, e int
	rev  bool
}

func vAtomsC(loc gts.Location) []vAtomC {
	switch v := loc.(type) {
	case gts.Ranged:
		return []vAtomC{{v.Start, v.End, false}}
	case gts.Point:
		return []vAtomC{{int(v), int(v) + 1, false}}
	case gts.Between:
		return []vAtomC{{int(v), int(v), false}}
	case gts.Joined:
		var out []vAtomC
		for _, l := range v {
			out = append(out, vAtomsC(l)...)
		}
		return out
	case gts.Ordered:
		var out []vAtomC
		for _, l := range v {
			out = append(out, vAtomsC(l)...)
		}
		return out
	case gts.Complemented:
		in := vAtomsC(v.Location)
		out := make([]vAtomC, len(in))
		for i := range in {
			a := in[len(in)-1-i]
			a.rev = !a.rev
			out[i] = a
		}
		return out
	}
	panic("vAtomsC: unknown location")
}

func vCovC(as []vAtomC, x int, rev bool) bool {
	c := false
	for _, a := range as {
		c = vOr(c, vAnd(a.rev == rev, vAnd(a.s <= x, x < a.e)))
	}
	return c
}

// vSel: out[idx] as an int with no bounds fork (-1 if out of range).
func vSel(p []byte, idx int) int {
	r := -1
	for j := range p {
		r = vIte(idx == j, int(p[j]), r)
	}
	return r
}

// vGenRecord: a GenBank record with L symbolic residues and nf gene features (ranges on either strand).
var vFwdOnly bool // set by a harness before vGenRecord: genes on the forward strand only

func vGenRecord(L, nf int, circular bool) (seqio.GenBank, []byte, []gts.Feature) {
	data := vBytesIn("r", L, 'a', 'z')
	top := gts.Linear
	if circular {
		top = gts.Circular
	}
	var ff gts.FeatureSlice
	src := gts.Props{}
	src.Add("mol_type", "x")
	ff = ff.Insert(gts.Feature{Key: "source", Loc: gts.Range(0, L), Props: src})
	var genes []gts.Feature
	for k := 0; k < nf; k++ {
		name := "g" + string(rune('0'+k))
		s := vIntIn(name+".s", 0, L-1)
		e := vIntIn(name+".e", 1, L)
		vAssume(s < e)
		var loc gts.Location = gts.Range(s, e)
		if !vFwdOnly && vBool(name+".rev") {
			loc = loc.Complement()
		}
		p := gts.Props{}
		p.Add("gene", name)
		f := gts.Feature{Key: "gene", Loc: loc, Props: p}
		genes = append(genes, f)
		ff = ff.Insert(f)
	}
	gb := seqio.GenBank{
		Fields: seqio.GenBankFields{LocusName: "X", Molecule: gts.DNA, Topology: top, Division: "UNK",
			Date: seqio.Date{Year: 2000, Month: 1, Day: 1}, Definition: "d", Accession: "A", Version: "A.1",
			Source: seqio.Organism{Species: "s", Name: "o", Taxon: []string{"t"}}},
		Table:  ff,
		Origin: seqio.NewOrigin(data),
	}
	return gb, data, genes
}

func vGeneByName(ff []gts.Feature, name string) (gts.Feature, bool) {
	for _, f := range ff {
		if f.Key == "gene" && len(f.Props) > 0 && len(f.Props[0]) > 1 && f.Props[0][1] == name {
			return f, true
		}
	}
	return gts.Feature{}, false
}

// ---- cache-aware driver (C14) ---------------------------------------------------------

// vRunCached: one invocation of a command in a "fresh process" sharing the cache directory.
// recs are the records on stdin; fail makes the input malformed after them.
func vRunCached(name string, fn flags.Function, args []string, recs []gts.Sequence, stdin []byte, fail bool, home string) ([]byte, bool) {
	ctx := &flags.Context{Name: []string{"gts", name}, Args: args}
	if vIsModel() {
		vResetStdio(stdin)
		vQueue, vQPos, vOut, vScanFail = recs, 0, nil, fail
		vResetScanners()
		err := fn(ctx)
		closeCaches(err == nil) // what main() does after the command returns
		out, _ := vFSRead("/dev/stdout")
		return out, err == nil
	}
	dir := vTempDir()
	fin, err := os.Create(dir + "/in.gb")
	if err != nil {
		panic(err)
	}
	w := seqio.NewWriter(fin, seqio.GenBankFile)
	for _, s := range recs {
		if _, err := w.WriteSeq(s); err != nil {
			panic(err)
		}
	}
	if fail {
		fin.WriteString("LOCUS       broken\n")
	}
	fin.Seek(0, io.SeekStart)
	fout, err := os.Create(dir + "/out.gb")
	if err != nil {
		panic(err)
	}
	os.Setenv("XDG_CACHE_HOME", home)
	cerr := func() error {
		oldIn, oldOut := os.Stdin, os.Stdout
		defer func() { os.Stdin, os.Stdout = oldIn, oldOut }()
		os.Stdin, os.Stdout = fin, fout
		err := fn(ctx)
		closeCaches(err == nil) // what main() does after the command returns
		return err
	}()
	fin.Close()
	fout.Close()
	out, _ := os.ReadFile(dir + "/out.gb")
	return out, cerr == nil
}

// vRunCachedP: vRunCached for invocations that may crash: a panic in the command unwinds (its deferred calls run)
// and ends the process with status 2 before main() reaches closeCaches.  Status: 0 ok, 1 error, 2 crash.
func vRunCachedP(name string, fn flags.Function, args []string, recs []gts.Sequence, stdin []byte, home string) ([]byte, int) {
	ctx := &flags.Context{Name: []string{"gts", name}, Args: args}
	run := func() int {
		var err error
		if vPanics(func() { err = fn(ctx) }) {
			return 2
		}
		closeCaches(err == nil) // what main() does after the command returns
		if err != nil {
			return 1
		}
		return 0
	}
	if vIsModel() {
		vResetStdio(stdin)
		vQueue, vQPos, vOut, vScanFail = recs, 0, nil, false
		vResetScanners()
		st := run()
		out, _ := vFSRead("/dev/stdout")
		return out, st
	}
	dir := vTempDir()
	fin, err := os.Create(dir + "/in.gb")
	if err != nil {
		panic(err)
	}
	w := seqio.NewWriter(fin, seqio.GenBankFile)
	for _, s := range recs {
		if _, err := w.WriteSeq(s); err != nil {
			panic(err)
		}
	}
	fin.Seek(0, io.SeekStart)
	fout, err := os.Create(dir + "/out.gb")
	if err != nil {
		panic(err)
	}
	os.Setenv("XDG_CACHE_HOME", home)
	st := func() int {
		oldIn, oldOut := os.Stdin, os.Stdout
		defer func() { os.Stdin, os.Stdout = oldIn, oldOut }()
		os.Stdin, os.Stdout = fin, fout
		return run()
	}()
	fin.Close()
	fout.Close()
	out, _ := os.ReadFile(dir + "/out.gb")
	return out, st
}
