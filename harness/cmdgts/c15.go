package main

// C15 — multi-site edit commands act once at every located site, in input coordinates.

import (
	"os"

	"github.com/go-gts/gts"
	"github.com/go-gts/gts/seqio"
)

//verif:harness prop=C15 quick=3 thorough=3 merge=concrete timeout=1500
//verif:bounds gts delete with locator `gene`: linear record of 5 (quick) / 6 (thorough) symbolic residues with 2 (quick) / 3 (thorough) gene features (ranges on either strand, symbolic coordinates: overlapping, nested, coinciding, unsorted); options: plain / -e (erase); third shard: plain, 3 genes on 4 (quick) / 5 (thorough) residues (a region containing a second one and overlapped by a third needs three)
//verif:assume scanner = queue of harness-built records, writer = capturing sink, cmd.IsTerminal = false, --no-cache (DESIGN §2.5); natively the real reader/writer/command run on real files
func VH_C15_delete() {
	sh := vShard(3)
	L, nf := 5+vTier(), 2+vTier()
	erase := sh == 1
	if sh == 2 {
		nf, L = 3, 4+vTier()
	}
	gb, data, genes := vGenRecord(L, nf, false)
	args := []string{"--no-cache", "gene"}
	if erase {
		args = []string{"--no-cache", "-e", "gene"}
	}
	out, err := vRunCmd("delete", deleteFunc, args, []gts.Sequence{gb})
	vAssert("command-ok", err == nil)
	vAssert("one-record", len(out) == 1)
	if err != nil || len(out) != 1 {
		return
	}
	vCover("deleted")
	got := out[0].Bytes()
	// R = union of the located regions (the genes' ranges)
	inR := func(x int) bool {
		c := false
		for _, g := range genes {
			a := vAtomsC(g.Loc)[0]
			c = vOr(c, vAnd(a.s <= x, x < a.e))
		}
		return c
	}
	removed := 0
	for x := 0; x < L; x++ {
		below := removed
		keep := !inR(x)
		vAssert("survivor-kept-in-order", vImplies(keep, vSel(got, x-below) == int(data[x])))
		removed += vIte(keep, 0, 1)
	}
	vAssert("exactly-the-union-removed", len(got) == L-removed)
	// features denote what they denoted: the source feature covers everything that is left
	for _, f := range out[0].Features() {
		if f.Key == "source" {
			as := vAtomsC(f.Loc)
			y := vIntIn("y", 0, L)
			vAssume(y < L-removed)
			vAssert("source-covers-rest", vCovC(as, y, false))
		}
	}
	vObserve("outlen", len(got))
}

// vHeads: the 5' position (Region.Head) of each gene's region.
func vHead(g gts.Feature) int {
	a := vAtomsC(g.Loc)[0]
	return vIte(a.rev, a.e, a.s) // complement regions are (tail, head) reversed: Head() is the upper coordinate
}

//verif:harness prop=C15 quick=2 thorough=2 merge=concrete timeout=1500
//verif:bounds gts insert with locator `gene` and a literal 2-residue guest (@..): linear record of 4 (quick) / 5 (thorough) symbolic residues, 2 (quick) / 3 (thorough) genes on either strand with symbolic coordinates; options plain / -e (embed)
func VH_C15_insert() {
	sh := vShard(2)
	L, nf := 4+vTier(), 2+vTier()
	embed := sh%2 == 1
	gb, data, genes := vGenRecord(L, nf, false)
	args := []string{"--no-cache", "gene", "@XY"}
	if embed {
		args = []string{"--no-cache", "-e", "gene", "@XY"}
	}
	out, err := vRunCmd("insert", insertFunc, args, []gts.Sequence{gb})
	vAssert("command-ok", err == nil)
	vAssert("one-record", len(out) == 1)
	if err != nil || len(out) != 1 {
		return
	}
	vCover("inserted")
	got := out[0].Bytes()
	const g = 2
	vAssert("one-copy-per-site", len(got) == L+g*nf)
	// host residue x moves right by one guest length for every site whose 5' position is <= x
	for x := 0; x < L; x++ {
		cnt := 0
		for _, gn := range genes {
			cnt += vIte(vHead(gn) <= x, 1, 0)
		}
		vAssert("host-residue-placed", vSel(got, x+g*cnt) == int(data[x]))
	}
	// a copy of the guest starts at each site's 5' position (input coordinates)
	for _, gn := range genes {
		h := vHead(gn)
		before := 0
		for _, o := range genes {
			before += vIte(vHead(o) < h, 1, 0)
		}
		vAssert("guest-at-site", vAnd(vSel(got, h+g*before) == 'X', vSel(got, h+g*before+1) == 'Y'))
	}
	vObserve("outlen", len(got))
}

//verif:harness prop=C15 quick=2 thorough=2 merge=concrete timeout=1500
//verif:bounds gts rotate with locator `gene`: circular record of 4 (quick) / 6 (thorough) symbolic residues with 2 genes (either strand, symbolic coordinates): the first located position comes to index 0
func VH_C15_rotate() {
	L := 4 + 2*vTier()
	gb, data, genes := vGenRecord(L, 2, true)
	loc := "gene"
	if vShard(2) == 1 {
		loc = "gene@^"
	}
	out, err := vRunCmd("rotate", rotateFunc, []string{"--no-cache", loc}, []gts.Sequence{gb})
	vAssert("command-ok", err == nil)
	vAssert("one-record", len(out) == 1)
	if err != nil || len(out) != 1 {
		return
	}
	vCover("rotated")
	got := out[0].Bytes()
	vAssert("same-length", len(got) == L)
	// table order decides which site is "first": the table is sorted by location, sources first
	first := gb.Table[1]
	h := vHead(first)
	h = vIte(h == L, 0, h)
	for x := 0; x < L; x++ {
		// residue x ends up at (x - h) mod L
		vAssert("origin-moved", vSel(got, vIte(x >= h, x-h, x-h+L)) == int(data[x]))
	}
	_ = genes
	vObserve("outlen", len(got))
}

//verif:harness prop=C15 quick=3 thorough=4 merge=concrete timeout=1500
//verif:bounds gts split with locator `gene`: linear and circular record of 5 symbolic residues with 2 genes (either strand, symbolic coordinates): the pieces concatenate back to the input (circular: to the input re-origined at a cut)
func VH_C15_split() {
	sh := vShard(3 + vTier())
	L := 5
	circular := sh >= 2
	gb, data, genes := vGenRecord(L, 2, circular)
	loc := "gene"
	if sh%2 == 1 {
		loc = "gene@^"
	}
	out, err := vRunCmd("split", splitFunc, []string{"--no-cache", loc}, []gts.Sequence{gb})
	vAssert("command-ok", err == nil)
	if err != nil {
		return
	}
	vCover("split")
	var cat []byte
	for _, s := range out {
		cat = append(cat, s.Bytes()...)
	}
	vAssert("nothing-lost", len(cat) == L)
	if len(cat) != L {
		return
	}
	if !circular {
		ok := true
		for x := 0; x < L; x++ {
			ok = vAnd(ok, cat[x] == data[x])
		}
		vAssert("pieces-concatenate-to-input", ok)
	} else {
		// some rotation of the input (re-origined at a cut)
		any := false
		for r := 0; r < L; r++ {
			ok := true
			for x := 0; x < L; x++ {
				ok = vAnd(ok, cat[x] == data[(x+r)%L])
			}
			any = vOr(any, ok)
		}
		vAssert("pieces-concatenate-to-rotated-input", any)
	}
	_ = genes
	vObserve("pieces", len(out))
}

//verif:harness prop=C15 quick=2 thorough=4 merge=concrete timeout=1500
//verif:bounds gts extract with locator `gene` (plain: forward-strand genes, given once or twice; -v: either strand): linear record of 5 symbolic residues with 2 (quick) / 3 (thorough) genes, symbolic coordinates
func VH_C15_extract() {
	sh := vShard(2 + 2*vTier())
	L, nf := 5, 2+vTier()/1*(sh/2)
	invert := sh%2 == 1
	vFwdOnly = !invert // extracting a complement-strand region complements every (symbolic) residue through a 26-letter table; that law is C05's, here the plain run uses forward genes
	gb, data, genes := vGenRecord(L, nf, false)
	args := []string{"--no-cache", "gene"}
	if invert {
		args = []string{"--no-cache", "-v", "gene"}
	} else if vChoice("twice", 2) == 1 {
		// two locator arguments that resolve to the same regions: still no duplicates
		args = []string{"--no-cache", "gene", "gene"}
	}
	out, err := vRunCmd("extract", extractFunc, args, []gts.Sequence{gb})
	vAssert("command-ok", err == nil)
	if err != nil {
		return
	}
	vCover("extracted")
	if invert {
		// exactly the maximal unlocated stretches, in order
		covered := func(x int) bool {
			c := false
			for _, g := range genes {
				a := vAtomsC(g.Loc)[0]
				c = vOr(c, vAnd(a.s <= x, x < a.e))
			}
			return c
		}
		var cat []byte
		for _, s := range out {
			vAssert("stretch-nonempty", len(s.Bytes()) > 0)
			cat = append(cat, s.Bytes()...)
		}
		n := 0
		for x := 0; x < L; x++ {
			keep := !covered(x)
			vAssert("unlocated-residue-emitted", vImplies(keep, vSel(cat, n) == int(data[x])))
			n += vIte(keep, 1, 0)
		}
		vAssert("only-unlocated-emitted", len(cat) == n)
		return
	}
	// one record per distinct located region shorter than the record (a single full-length region is kept), in table order
	k := 0
	tab := gb.Table[1:]
	for i, f := range tab {
		a := vAtomsC(f.Loc)[0]
		dup := false
		for _, g := range tab[:i] {
			b := vAtomsC(g.Loc)[0]
			dup = vOr(dup, vAnd(vAnd(a.s == b.s, a.e == b.e), a.rev == b.rev))
		}
		full := a.e-a.s == L
		if dup {
			continue
		}
		distinct := 0
		for j, g := range tab {
			b := vAtomsC(g.Loc)[0]
			d2 := false
			for _, h := range tab[:j] {
				c := vAtomsC(h.Loc)[0]
				d2 = vOr(d2, vAnd(vAnd(b.s == c.s, b.e == c.e), b.rev == c.rev))
			}
			distinct += vIte(d2, 0, 1)
		}
		if full && distinct != 1 {
			continue
		}
		vAssert("region-emitted", k < len(out))
		if k >= len(out) {
			return
		}
		got := out[k].Bytes()
		vAssert("region-length", len(got) == a.e-a.s)
		if !a.rev {
			for j := range got {
				vAssert("region-residues", int(got[j]) == vSel(data, a.s+j))
			}
		}
		k++
	}
	vAssert("no-extra-records", k == len(out))
	vObserve("records", len(out))
}

//verif:harness prop=C15 quick=2 thorough=2 merge=concrete timeout=1500
//verif:bounds gts infix with locator `gene`: the guest (residues xy, on stdin) is placed into a host file: linear host of 4 (quick) / 5 (thorough) symbolic residues with 2 / 3 genes on either strand, symbolic coordinates; options plain / -e (embed)
func VH_C15_infix() {
	sh := vShard(2)
	L, nf := 4+vTier(), 2+vTier()
	embed := sh%2 == 1
	host, data, genes := vGenRecord(L, nf, false)
	guest, _ := vPlainRecord("gst", 0)
	gdata := []byte("xy") // concrete, as the literal guest of VH_C15_insert (symbolic guest residues defeat the state merging here)
	guest.Origin = seqio.NewOrigin(gdata)
	path := "/h/host.gb"
	if vIsModel() {
		vFSWrite(path, []byte("host")) // the model scanner takes the records from the queue; the bytes only feed the digest
	} else {
		path = vTempDir() + "/host.gb"
		f, err := os.Create(path)
		if err != nil {
			panic(err)
		}
		if _, err := seqio.NewWriter(f, seqio.GenBankFile).WriteSeq(host); err != nil {
			panic(err)
		}
		f.Close()
	}
	args := []string{"--no-cache", "gene", path}
	if embed {
		args = []string{"--no-cache", "-e", "gene", path}
	}
	vSecondary = [][]gts.Sequence{{host}}
	out, err := vRunCmd("infix", infixFunc, args, []gts.Sequence{guest})
	vSecondary = nil
	vAssert("command-ok", err == nil)
	vAssert("one-record", len(out) == 1)
	if err != nil || len(out) != 1 {
		return
	}
	vCover("infixed")
	got := out[0].Bytes()
	const g = 2
	vAssert("one-copy-per-site", len(got) == L+g*nf)
	for x := 0; x < L; x++ {
		cnt := 0
		for _, gn := range genes {
			cnt += vIte(vHead(gn) <= x, 1, 0)
		}
		vAssert("host-residue-placed", vSel(got, x+g*cnt) == int(data[x]))
	}
	for _, gn := range genes {
		h := vHead(gn)
		before := 0
		for _, o := range genes {
			before += vIte(vHead(o) < h, 1, 0)
		}
		vAssert("guest-at-site", vAnd(vSel(got, h+g*before) == int(gdata[0]), vSel(got, h+g*before+1) == int(gdata[1])))
	}
	vObserve("outlen", len(got))
}

//verif:harness prop=C15 quick=1 thorough=2 merge=concrete timeout=1500
//verif:bounds gts extract with locator `gene` on a linear record of 7 (quick) / 8 (thorough) symbolic residues with two genes that are two-part joins: join(1..2,4..6) and join(s..m,n..e) for every s<m<n<e (enumerated): one record per distinct region — two joins with the same ends and the same spliced length but different inner boundaries are different regions — each holding the spliced residues, in table order
func VH_C15_extract_joins() {
	L := 7 + vShard(1+vTier())
	data := vBytesIn("r", L, 'a', 'z')
	var ff gts.FeatureSlice
	sp := gts.Props{}
	sp.Add("mol_type", "x")
	ff = ff.Insert(gts.Feature{Key: "source", Loc: gts.Range(0, L), Props: sp})
	type jn struct{ s, m, n, e int }
	s1 := vChoice("s", L-3)
	m1 := s1 + 1 + vChoice("m", L-3-s1)
	n1 := m1 + 1 + vChoice("n", L-2-m1)
	e1 := n1 + 1 + vChoice("e", L-n1)
	js := []jn{{0, 2, 3, 6}, {s1, m1, n1, e1}}
	for k, j := range js {
		p := gts.Props{}
		p.Add("gene", "j"+string(rune('0'+k)))
		ff = ff.Insert(gts.Feature{Key: "gene", Loc: gts.Join(gts.Range(j.s, j.m), gts.Range(j.n, j.e)), Props: p})
	}
	gb := seqio.GenBank{
		Fields: seqio.GenBankFields{LocusName: "X", Molecule: gts.DNA, Topology: gts.Linear, Division: "UNK",
			Date: seqio.Date{Year: 2000, Month: 1, Day: 1}, Definition: "d", Accession: "A", Version: "A.1",
			Source: seqio.Organism{Species: "s", Name: "o", Taxon: []string{"t"}}},
		Table:  ff,
		Origin: seqio.NewOrigin(data),
	}
	out, err := vRunCmd("extract", extractFunc, []string{"--no-cache", "gene"}, []gts.Sequence{gb})
	vAssert("command-ok", err == nil)
	if err != nil {
		return
	}
	vCover("extracted")
	same := js[0] == js[1]
	want := 2
	if same {
		want = 1
	}
	vAssert("one-record-per-distinct-region", len(out) == want)
	if len(out) != want {
		return
	}
	// records come in table order
	var order []jn
	for _, f := range gb.Table[1:] {
		if f.Props[0][1] == "j0" {
			order = append(order, js[0])
		} else {
			order = append(order, js[1])
		}
	}
	for k, rec := range out {
		j := order[k]
		got := rec.Bytes()
		a := j.m - j.s
		vAssert("spliced-length", len(got) == a+(j.e-j.n))
		if len(got) != a+(j.e-j.n) {
			continue
		}
		for x := range got {
			src := j.s + x
			if x >= a {
				src = j.n + (x - a)
			}
			vAssert("spliced-residues", got[x] == data[src])
		}
	}
	vObserve("records", len(out))
}
