#!/bin/bash
# dev helper: re-applies every kept seed to /repo, runs the quick check of its property, restores the tree.
# Writes /verif/seeded/SWEEP.txt.  Never run while another check is using /repo.
export GOFLAGS=-mod=mod GOPROXY=off GOSUMDB=off GOTOOLCHAIN=local
cd /repo || exit 2
git diff --quiet || { echo "REPO-DIRTY"; exit 2; }
out=/verif/seeded/SWEEP.txt
echo "# seed sweep on /repo $(git rev-parse --short HEAD), tier ${1:-quick}" > $out
for d in /verif/seeded/*/; do
  s=$(basename $d); p=${s%%-*}; p=${p%b}
  if ! git apply --check $d/patch.diff 2>/dev/null; then echo "$s PATCH-DOES-NOT-APPLY" >> $out; continue; fi
  git apply $d/patch.diff
  if ! go build ./... 2>/dev/null; then echo "$s DOES-NOT-BUILD" >> $out; git checkout -- .; continue; fi
  r=$(/verif/bin/gosym check $p --tier ${1:-quick} 2>&1)
  code=$?
  git checkout -- .
  labels=$(echo "$r" | grep counterexample | awk '{print $2}' | sort | uniq -c | sort -rn | head -3 | awk '{printf "%s(%s) ", $2, $1}')
  if [ $code = 1 ]; then echo "$s CAUGHT exit=1 $labels" >> $out; else echo "$s NOT-CAUGHT exit=$code $(echo "$r" | grep -E '^(INCONCL|ENGINE|VACUITY)' | head -2 | cut -c1-150)" >> $out; fi
done
git diff --quiet || echo "REPO-LEFT-DIRTY" >> $out
cat $out
