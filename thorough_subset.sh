#!/bin/sh
# dev helper: thorough_subset.sh <props...> — for `vp run`: builds gosym in the snapshot and runs the thorough tier of the given
# properties against /repo with the snapshot as VERIF_DIR (evidence and replays land in the snapshot, not in /verif)
export GOFLAGS=-mod=mod GOPROXY=off GOSUMDB=off GOTOOLCHAIN=local
here=$(pwd)
(cd gosym && go build -o $here/bin/gosym .) || exit 2
for p in "$@"; do
  VERIF_DIR=$here $here/bin/gosym check $p --tier thorough 2>&1 | grep -E '^(RESULT|VIOLATION|KNOWN-FINDING|INCONCLUSIVE|ENGINE|VACUITY|note)' | cut -c1-300
done
echo SUBSET-DONE
