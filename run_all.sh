#!/bin/sh
# dev helper: run every registered property's check in the given tier and print the RESULT lines
tier=${1:-quick}
for p in $(/verif/bin/gosym list | sed 's/.*prop=\([A-Z0-9]*\).*/\1/' | sort -u); do
  /verif/bin/gosym check $p --tier $tier 2>&1 | grep -E '^(RESULT|VIOLATION|KNOWN-FINDING|INCONCLUSIVE|ENGINE|VACUITY)' | cut -c1-200
done
