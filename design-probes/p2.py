import time, sys
from z3 import *
MODE=sys.argv[1]  # bv or int
W=64
if MODE=='bv':
    def var(n): return BitVec(n, W)
    def val(v): return BitVecVal(v, W)
else:
    def var(n): return Int(n)
    def val(v): return IntVal(v)
def Max(a,b): return If(b < a, a, b)
def Min(a,b): return If(a < b, a, b)
CAP = val(1<<40)

def expand_ranged(s,e,p5,p3,i,nn):
    n = -nn
    j = i - n
    p5n = Or(p5, And(i <= s, s < j))
    p3n = Or(p3, And(i < e, e <= j))
    s2 = If(i < s, Max(i, s+n), s)
    e2 = If(i <= e, Max(i, e+n), e)
    return (s2 == e2, s2, e2, p5n, p3n)

def run(k, bug=False):
    solver = Solver()
    i, nn, L, t = var('i'), var('nn'), var('L'), var('t')
    solver.add(0 <= i, 0 < nn, nn <= CAP, i <= CAP, i + nn <= L, L <= CAP, 0<=t, t<=CAP*8)
    parts=[]
    for a in range(k):
        s,e = var(f's{a}'), var(f'e{a}')
        solver.add(0 <= s, s < e, e <= L)
        parts.append((s,e,Bool(f'p5{a}'),Bool(f'p3{a}')))
    outs=[expand_ranged(s,e,p5,p3,i,nn) for (s,e,p5,p3) in parts]
    def surv(s,e):
        a = Max(s, Min(e, i)); b = Min(e, Max(s, i+nn))
        return a-s, e-b, a, b
    def res_oracle(t):
        off = val(0); items=[]
        for (s,e,_,_) in parts:
            l1,l2,a,b = surv(s,e)
            items.append((off, l1, l2, s, b)); off = off + l1 + l2
        total = off; expr=val(-1)
        for (o,l1,l2,s,b) in reversed(items):
            u = t - o
            x = If(u < l1, s+u, b + (u-l1))
            y = If(x < i, x, x-nn)
            expr = If(And(o <= t, t < o+l1+l2), y, expr)
        return expr, total
    def res_impl(t):
        off = val(0); items=[]
        for (isb,s2,e2,_,_) in outs:
            ln = If(isb, val(0), e2-s2)
            if bug: ln = If(isb, val(0), e2-s2) 
            items.append((off, ln, s2)); off = off+ln
        total=off; expr=val(-1)
        for (o,ln,s2) in reversed(items):
            expr = If(And(o<=t, t<o+ln), s2+(t-o), expr)
        return expr,total
    ro,to = res_oracle(t); ri,ti = res_impl(t)
    solver.add(Or(to != ti, And(t < to, ro != ri)))
    solver.set("timeout", 120000)
    t0=time.time(); r=solver.check(); dt=time.time()-t0
    print(f"{MODE} k={k} result={r} time={dt:.2f}s", flush=True)
    if r==sat: print(solver.model())
for k in (1,2,3,4): run(k)
