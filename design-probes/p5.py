import time
from z3 import *
s_=Solver()
s,e,n,L,t=Ints('s e n L t')
s_.add(L>=1,L<=2**40,0<=s,s<e,e<=L,0<=n,n<L,0<=t,t<e-s)
cnt=[0]
def mod(x):  # x in [0,2L): bounded quotient encoding via fresh vars
    cnt[0]+=1
    q=Int(f'q{cnt[0]}'); r=Int(f'r{cnt[0]}')
    s_.add(q>=0,q<2,r>=0,r<L,x==If(q==0,0,L)+r)
    return r
S=s+n; E=e+n
full = (E-S)==L
start=mod(S); end=mod(E-1)+1
# outcome atoms
# case full: [0,L) ; case start<end: [start,end) ; else: [start,L),[0,end)
def res_out(t):
    return If(full, t, If(start<end, start+t, If(t < L-start, start+t, t-(L-start))))
len_out = If(full, L, If(start<end, end-start, (L-start)+end))
oracle = mod(s+t+n)
s_.add(Or(len_out != e-s, res_out(t)!=oracle))
t0=time.time(); print("rotate ranged", s_.check(), f"{time.time()-t0:.2f}s")
if s_.check()==sat: print(s_.model())
