package main

import (
	"fmt"

	"github.com/go-gts/gts"
)

// atom in reading order
type atom struct {
	kind   byte // 'r' ranged/point, 'b' between, 'a' ambiguous
	s, e   int
	rev    bool
	p5, p3 bool
}

func atoms(l gts.Location) []atom {
	switch v := l.(type) {
	case gts.Between:
		return []atom{{'b', int(v), int(v), false, false, false}}
	case gts.Point:
		return []atom{{'r', int(v), int(v) + 1, false, false, false}}
	case gts.Ranged:
		return []atom{{'r', v.Start, v.End, false, v.Partial.Partial5, v.Partial.Partial3}}
	case gts.Ambiguous:
		return []atom{{'a', v.Start, v.End, false, false, false}}
	case gts.Joined:
		var out []atom
		for _, p := range v {
			out = append(out, atoms(p)...)
		}
		return out
	case gts.Ordered:
		var out []atom
		for _, p := range v {
			out = append(out, atoms(p)...)
		}
		return out
	case gts.Complemented:
		in := atoms(v.Location)
		out := make([]atom, len(in))
		for i, a := range in {
			a.rev = !a.rev
			out[len(in)-1-i] = a
		}
		return out
	case nil:
		panic("nil location")
	}
	panic(fmt.Sprintf("unknown %T", l))
}

type res struct {
	pos int
	rev bool
}

// ordered stranded residue list
func den(l gts.Location) []res {
	var out []res
	for _, a := range atoms(l) {
		if a.kind == 'b' {
			continue
		}
		if !a.rev {
			for x := a.s; x < a.e; x++ {
				out = append(out, res{x, false})
			}
		} else {
			for x := a.e - 1; x >= a.s; x-- {
				out = append(out, res{x, true})
			}
		}
	}
	return out
}

func eqRes(a, b []res) bool {
	if len(a) != len(b) {
		return false
	}
	for i := range a {
		if a[i] != b[i] {
			return false
		}
	}
	return true
}
