package main

import (
	"fmt"
	"sort"

	"github.com/go-gts/gts"
)

var L = 6

// enumerate atoms within [0,L]
func enumAtoms(L int, partial bool) []gts.Location {
	var out []gts.Location
	for g := 0; g <= L; g++ {
		out = append(out, gts.Between(g))
	}
	for p := 0; p < L; p++ {
		out = append(out, gts.Point(p))
	}
	for s := 0; s < L; s++ {
		for e := s + 1; e <= L; e++ {
			out = append(out, gts.Range(s, e))
			if partial {
				out = append(out, gts.PartialRange(s, e, gts.Partial5), gts.PartialRange(s, e, gts.Partial3), gts.PartialRange(s, e, gts.PartialBoth))
			}
			if e-s >= 2 {
				out = append(out, gts.Ambiguous{s, e})
			}
		}
	}
	return out
}

func enumS(L int, maxParts int) []gts.Location {
	at := enumAtoms(L, true)
	plain := enumAtoms(L, false)
	out := append([]gts.Location{}, at...)
	for _, a := range plain {
		for _, b := range plain {
			out = append(out, safeJoin(a, b), gts.Order(a, b))
		}
	}
	if maxParts >= 3 {
		small := []gts.Location{}
		for _, a := range plain {
			switch a.(type) {
			case gts.Ambiguous:
			default:
				small = append(small, a)
			}
		}
		for i := 0; i < len(small); i += 2 {
			for j := 1; j < len(small); j += 3 {
				for k := 0; k < len(small); k += 2 {
					out = append(out, safeJoin(small[i], small[j], small[k]), gts.Order(small[i], small[j], small[k]))
				}
			}
		}
	}
	n := len(out)
	for i := 0; i < n; i++ {
		out = append(out, out[i].Complement())
	}
	return out
}

func safeJoin(ll ...gts.Location) gts.Location { return gts.Join(ll...) }

// first-occurrence dedupe
func dd(a []res) []res {
	seen := map[res]bool{}
	var out []res
	for _, r := range a {
		if !seen[r] {
			seen[r] = true
			out = append(out, r)
		}
	}
	return out
}
func eqD(a, b []res) bool { return eqRes(dd(a), dd(b)) }
func hasP(l gts.Location) bool {
	for _, a := range atoms(l) {
		if a.kind == 'r' && a.e == a.s+1 && !a.p5 && !a.p3 {
			if _, ok := l.(gts.Ranged); ok { return false }
			return containsPoint(l)
		}
	}
	return false
}
func containsPoint(l gts.Location) bool {
	switch v := l.(type) {
	case gts.Point:
		return true
	case gts.Joined:
		for _, p := range v { if containsPoint(p) { return true } }
	case gts.Ordered:
		for _, p := range v { if containsPoint(p) { return true } }
	case gts.Complemented:
		return containsPoint(v.Location)
	}
	return false
}
func cls(l gts.Location) string {
	if containsPoint(l) { return "(has Point)" }
	return classOf(l)
}

func sden(l gts.Location) (out []res, ok bool) {
	defer func() {
		if recover() != nil {
			ok = false
		}
	}()
	return den(l), true
}

type tally map[string]int

var examples = map[string]string{}

func (t tally) hit(class string, ex string) {
	t[class]++
	if _, ok := examples[class]; !ok {
		examples[class] = ex
	}
}

func try(f func()) (p interface{}) {
	defer func() { p = recover() }()
	f()
	return nil
}

func classOf(l gts.Location) string {
	switch v := l.(type) {
	case gts.Complemented:
		return "c(" + classOf(v.Location) + ")"
	case gts.Joined:
		s := "J["
		for _, p := range v {
			s += classOf(p)
		}
		return s + "]"
	case gts.Ordered:
		s := "O["
		for _, p := range v {
			s += classOf(p)
		}
		return s + "]"
	case gts.Between:
		return "B"
	case gts.Point:
		return "P"
	case gts.Ranged:
		return "R"
	case gts.Ambiguous:
		return "A"
	}
	return "?"
}

func main() {
	t := tally{}
	locs := enumS(L, 3)
	fmt.Println("locations:", len(locs))
	apiProbe(locs, L)
	return
	total := 0
	for _, loc := range locs {
		d0 := den(loc)
		// ---- C02: Shift / Expand with n>0
		for i := 0; i <= L; i++ {
			for n := 1; n <= 2; n++ {
				total++
				m := func(x int) int {
					if x < i {
						return x
					}
					return x + n
				}
				want := make([]res, len(d0))
				for k, r := range d0 {
					want[k] = res{m(r.pos), r.rev}
				}
				var got gts.Location
				if p := try(func() { got = loc.Shift(i, n) }); p != nil {
					t.hit("C02 shift panic "+cls(loc), fmt.Sprintf("%v.Shift(%d,%d): %v", loc, i, n, p))
				} else if !eqD(den(got), want) {
					t.hit("C02 shift den "+cls(loc), fmt.Sprintf("%v.Shift(%d,%d)=%v", loc, i, n, got))
				}
				// Expand: spans strictly containing i additionally cover guest
				var wantE []res
				for _, a := range atoms(loc) {
					if a.kind == 'b' {
						continue
					}
					lo, hi := a.s, a.e
					var xs []int
					for x := lo; x < hi; x++ {
						xs = append(xs, m(x))
						if x+1 == i && x+1 < hi { // guest goes after x when i strictly inside
							for g := 0; g < n; g++ {
								xs = append(xs, i+g)
							}
						}
					}
					if a.rev {
						for k := len(xs) - 1; k >= 0; k-- {
							wantE = append(wantE, res{xs[k], true})
						}
					} else {
						for _, x := range xs {
							wantE = append(wantE, res{x, false})
						}
					}
				}
				if p := try(func() { got = loc.Expand(i, n) }); p != nil {
					t.hit("C02 expand panic "+cls(loc), fmt.Sprintf("%v.Expand(%d,%d): %v", loc, i, n, p))
				} else if !eqD(den(got), wantE) {
					t.hit("C02 expand den "+cls(loc), fmt.Sprintf("%v.Expand(%d,%d)=%v", loc, i, n, got))
				}
			}
		}
		// ---- C03: Expand(i,-n)
		for i := 0; i < L; i++ {
			for n := 1; i+n <= L; n++ {
				total++
				var want []res
				for _, r := range d0 {
					if r.pos >= i && r.pos < i+n {
						continue
					}
					x := r.pos
					if x >= i+n {
						x -= n
					}
					want = append(want, res{x, r.rev})
				}
				var got gts.Location
				if p := try(func() { got = loc.Expand(i, -n) }); p != nil {
					t.hit("C03 delete panic "+cls(loc), fmt.Sprintf("%v.Expand(%d,%d): %v", loc, i, -n, p))
					continue
				}
				if !eqD(den(got), want) {
					t.hit("C03 delete den "+cls(loc), fmt.Sprintf("%v.Expand(%d,%d)=%v", loc, i, -n, got))
				}
				for _, a := range atoms(got) {
					if a.s < 0 || a.e > L-n {
						t.hit("C03 delete range "+cls(loc), fmt.Sprintf("%v.Expand(%d,%d)=%v", loc, i, -n, got))
					}
				}
				// C10: insert then delete
				var back gts.Location
				if p := try(func() { back = loc.Shift(i, n).Expand(i, -n) }); p != nil {
					t.hit("C10 shift;delete panic "+cls(loc), fmt.Sprintf("%v i=%d n=%d: %v", loc, i, n, p))
				} else if !eqD(den(back), d0) {
					t.hit("C10 shift;delete den "+cls(loc), fmt.Sprintf("%v i=%d n=%d -> %v", loc, i, n, back))
				} else if back.String() != loc.String() {
					t.hit("C10 shift;delete text(differs, den ok) "+cls(loc), fmt.Sprintf("%v i=%d n=%d -> %v", loc, i, n, back))
				}
				if p := try(func() { back = loc.Expand(i, n).Expand(i, -n) }); p != nil {
					t.hit("C10 embed;delete panic "+cls(loc), fmt.Sprintf("%v i=%d n=%d: %v", loc, i, n, p))
				} else if !eqD(den(back), d0) {
					t.hit("C10 embed;delete den "+cls(loc), fmt.Sprintf("%v i=%d n=%d -> %v", loc, i, n, back))
				} else if back.String() != loc.String() {
					t.hit("C10 embed;delete text(differs, den ok) "+cls(loc), fmt.Sprintf("%v i=%d n=%d -> %v", loc, i, n, back))
				}
			}
		}
		// ---- C04: rotate
		for n := 0; n < L; n++ {
			total++
			want := make([]res, len(d0))
			for k, r := range d0 {
				want[k] = res{(r.pos + n) % L, r.rev}
			}
			var got gts.Location
			if p := try(func() { got = loc.Expand(0, n).Normalize(L) }); p != nil {
				t.hit("C04 rotate panic "+cls(loc), fmt.Sprintf("%v rot %d: %v", loc, n, p))
				continue
			}
			if !eqD(den(got), want) {
				// full-length exemption: compare as sets
				a, b := append([]res{}, den(got)...), append([]res{}, want...)
				sort.Slice(a, func(i, j int) bool { return a[i].pos < a[j].pos })
				sort.Slice(b, func(i, j int) bool { return b[i].pos < b[j].pos })
				if eqRes(a, b) {
					t.hit("C04 rotate order-only "+cls(loc), fmt.Sprintf("%v rot %d = %v", loc, n, got))
				} else {
					t.hit("C04 rotate den "+cls(loc), fmt.Sprintf("%v rot %d = %v", loc, n, got))
				}
			}
		}
		// ---- C05: reverse
		{
			total++
			want := make([]res, len(d0))
			// reading order reversed within unchanged strand wrapper: coverage mirrored, order mirrored
			for k, r := range d0 {
				want[len(d0)-1-k] = res{L - 1 - r.pos, r.rev}
			}
			var got gts.Location
			if p := try(func() { got = loc.Reverse(L); _ = got.String(); den(got) }); p != nil {
				t.hit("C05 reverse panic "+cls(loc), fmt.Sprintf("%v: %v", loc, p))
			} else if !eqD(den(got), want) {
				t.hit("C05 reverse den "+cls(loc), fmt.Sprintf("%v.Reverse=%v", loc, got))
			} else {
				var back gts.Location
				if p := try(func() { back = got.Reverse(L) }); p != nil || back.String() != loc.String() {
					t.hit("C05 reverse involution "+cls(loc), fmt.Sprintf("%v -> %v -> %v", loc, got, back))
				}
			}
		}
	}
	fmt.Println("cases:", total)
	keys := make([]string, 0, len(t))
	for k := range t {
		keys = append(keys, k)
	}
	sort.Strings(keys)
	for _, k := range keys {
		fmt.Printf("%6d  %-60s e.g. %s\n", t[k], k, examples[k])
	}
}
