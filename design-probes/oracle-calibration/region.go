package main

import (
	"fmt"

	"github.com/go-gts/gts"
)

type pos struct {
	x   int
	rev bool
}

func spliced(r gts.Region) []pos {
	switch v := r.(type) {
	case gts.Segment:
		var out []pos
		if v[0] <= v[1] {
			for x := v[0]; x < v[1]; x++ {
				out = append(out, pos{x, false})
			}
		} else {
			for x := v[0] - 1; x >= v[1]; x-- {
				out = append(out, pos{x, true})
			}
		}
		return out
	case gts.Regions:
		var out []pos
		for _, s := range v {
			out = append(out, spliced(s)...)
		}
		return out
	}
	panic("?")
}

func regionProbe() {
	t := tally{}
	n := 0
	var gen func(k int, start int, cur gts.Regions, f func(gts.Regions))
	gen = func(k, start int, cur gts.Regions, f func(gts.Regions)) {
		if k == 0 {
			f(cur)
			return
		}
		for h := start; h <= start+2; h++ {
			for l := 1; l <= 3; l++ {
				gen(k-1, h+l+1, append(append(gts.Regions{}, cur...), gts.Segment{h, h + l}), f)
			}
		}
	}
	for k := 1; k <= 4; k++ {
		gen(k, 2, nil, func(rr gts.Regions) {
			for _, R := range []gts.Region{rr, rr.Complement()} {
				full := spliced(R)
				Ln := len(full)
				mods := []gts.Modifier{}
				for p := 0; p <= Ln; p++ {
					mods = append(mods, gts.Head(p), gts.Tail(p-Ln))
					for q := p; q <= Ln; q++ {
						mods = append(mods, gts.HeadHead{p, q}, gts.HeadTail{p, q - Ln}, gts.TailTail{p - Ln, q - Ln})
					}
				}
				for _, m := range mods {
					n++
					lo, hi := 0, 0
					switch v := m.(type) {
					case gts.Head:
						lo, hi = int(v), int(v)
					case gts.Tail:
						lo, hi = Ln+int(v), Ln+int(v)
					case gts.HeadHead:
						lo, hi = v[0], v[1]
					case gts.HeadTail:
						lo, hi = v[0], Ln+v[1]
					case gts.TailTail:
						lo, hi = Ln+v[0], Ln+v[1]
					}
					var got []pos
					if p := try(func() { got = spliced(R.Resize(m)) }); p != nil {
						t.hit(fmt.Sprintf("resize panic k=%d", k), fmt.Sprintf("%v %v: %v", R, m, p))
						continue
					}
					want := full[lo:hi]
					ok := len(got) == len(want)
					for i := 0; ok && i < len(got); i++ {
						ok = got[i] == want[i]
					}
					if !ok {
						t.hit(fmt.Sprintf("resize wrong k=%d", k), fmt.Sprintf("%v %v -> %v", R, m, R.Resize(m)))
					}
				}
			}
		})
	}
	fmt.Println("resize cases", n)
	// Minimize / invert
	m := 0
	N := 7
	var segs []gts.Segment
	for a := 0; a <= N; a++ {
		for b := 0; b <= N; b++ {
			segs = append(segs, gts.Segment{a, b})
		}
	}
	for i := 0; i < len(segs); i++ {
		for j := 0; j < len(segs); j++ {
			for k := 0; k < len(segs); k += 3 {
				m++
				rr := gts.Regions{segs[i], gts.Regions{segs[j], segs[k]}}
				in := make([]int, N)
				for _, p := range spliced(rr) {
					in[p.x] = 1
				}
				mn := gts.Minimize(rr)
				out := make([]int, N)
				okShape := true
				for q, s := range mn {
					if s[0] > s[1] {
						okShape = false
					}
					if q > 0 && !(mn[q-1][1] < s[0]) {
						okShape = false
					}
					for x := s[0]; x < s[1]; x++ {
						out[x]++
					}
				}
				if !okShape || fmt.Sprint(in) != fmt.Sprint(out) {
					t.hit("minimize", fmt.Sprintf("%v -> %v", rr, mn))
				}
				for _, circ := range []bool{false, true} {
					var inv []gts.Region
					if p := try(func() {
						if circ {
							inv = gts.InvertCircular(rr, N)
						} else {
							inv = gts.InvertLinear(rr, N)
						}
					}); p != nil {
						t.hit(fmt.Sprintf("invert panic circ=%v", circ), fmt.Sprintf("%v: %v", rr, p))
						continue
					}
					cnt := make([]int, N)
					copy(cnt, out)
					bad := false
					for _, r := range inv {
						if r.Len() == 0 {
							bad = true
						}
						for _, p := range spliced(r) {
							cnt[p.x]++
						}
					}
					for _, c := range cnt {
						if c != 1 {
							bad = true
						}
					}
					if bad {
						t.hit(fmt.Sprintf("invert wrong circ=%v", circ), fmt.Sprintf("%v -> %v", rr, inv))
					}
				}
			}
		}
	}
	fmt.Println("minimize cases", m)
	for k, v := range t {
		fmt.Printf("%6d  %-30s e.g. %s\n", v, k, examples[k])
	}
}
