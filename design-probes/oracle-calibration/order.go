package main

import (
	"fmt"
	"math/rand"

	"github.com/go-gts/gts"
)

func orderProbe(locs []gts.Location) {
	t := tally{}
	rng := rand.New(rand.NewSource(1))
	pick := func() gts.Location { return locs[rng.Intn(len(locs))] }
	for it := 0; it < 3000000; it++ {
		a, b, c := pick(), pick(), pick()
		if gts.LocationLess(a, a) {
			t.hit("reflexive", fmt.Sprint(a))
		}
		ab, ba := gts.LocationLess(a, b), gts.LocationLess(b, a)
		if ab && ba {
			t.hit("symmetric", fmt.Sprint(a, " ", b))
		}
		if ab && gts.LocationLess(b, c) && !gts.LocationLess(a, c) {
			t.hit("not transitive", fmt.Sprint(a, " ", b, " ", c))
		}
		// incomparability transitivity (strict weak order)
		if !ab && !ba {
			bc, cb := gts.LocationLess(b, c), gts.LocationLess(c, b)
			if !bc && !cb && (gts.LocationLess(a, c) || gts.LocationLess(c, a)) {
				t.hit("(incomparability not transitive)", fmt.Sprint(a, " ", b, " ", c))
			}
		}
	}
	for it := 0; it < 200000; it++ {
		var ff gts.FeatureSlice
		k := 2 + rng.Intn(4)
		for j := 0; j < k; j++ {
			key := "gene"
			if rng.Intn(4) == 0 {
				key = "source"
			}
			ff = ff.Insert(gts.Feature{Key: key, Loc: pick(), Props: gts.Props{{"id", fmt.Sprint(j)}}})
		}
		seenNon := false
		for i := range ff {
			if ff[i].Key != "source" {
				seenNon = true
			} else if seenNon {
				t.hit("source after non-source", fmt.Sprint(ff))
			}
			for j := i + 1; j < len(ff); j++ {
				if ff[i].Key != "source" && ff[j].Key != "source" && gts.LocationLess(ff[j].Loc, ff[i].Loc) {
					t.hit("inversion", fmt.Sprint(ff))
				}
			}
		}
		if len(ff) != k {
			t.hit("count", fmt.Sprint(ff))
		}
	}
	for k, v := range t {
		fmt.Printf("%6d  %-40s e.g. %s\n", v, k, examples[k])
	}
	fmt.Println("order probe done")
}
