package main

import (
	"fmt"

	"github.com/go-gts/gts"
)

type exp struct {
	s, e   int
	p5, p3 bool
	rev    bool
}

// expected surviving ranged atoms after deleting [i,i+n)
func expectDelete(loc gts.Location, i, n int) []exp {
	var out []exp
	for _, a := range atoms(loc) {
		if a.kind != 'r' {
			continue
		}
		lo, hi := -1, -1
		for x := a.s; x < a.e; x++ {
			if x >= i && x < i+n {
				continue
			}
			if lo < 0 {
				lo = x
			}
			hi = x
		}
		if lo < 0 {
			continue
		}
		m := func(x int) int {
			if x >= i+n {
				return x - n
			}
			return x
		}
		cutL := a.s >= i && a.s < i+n
		cutR := a.e-1 >= i && a.e-1 < i+n
		out = append(out, exp{m(lo), m(hi) + 1, a.p5 || cutL, a.p3 || cutR, a.rev})
	}
	return out
}

func rangedAtoms(loc gts.Location) []exp {
	var out []exp
	for _, a := range atoms(loc) {
		if a.kind == 'r' {
			out = append(out, exp{a.s, a.e, a.p5, a.p3, a.rev})
		}
	}
	return out
}

func markerProbe(locs []gts.Location, L int) {
	t := tally{}
	for _, loc := range locs {
		if containsPoint(loc) {
			continue
		}
		for i := 0; i < L; i++ {
			for n := 1; i+n <= L; n++ {
				var got gts.Location
				if p := try(func() { got = loc.Expand(i, -n) }); p != nil {
					continue
				}
				want := expectDelete(loc, i, n)
				have := rangedAtoms(got)
				// holes inside a surviving atom: deletion strictly inside splits? no: deletion closes up, atom stays contiguous.
				if len(want) == len(have) {
					for k := range want {
						if want[k] != have[k] {
							t.hit("marker per-atom "+classOf(loc), fmt.Sprintf("%v.Expand(%d,%d)=%v want %v", loc, i, -n, got, want))
							break
						}
					}
				} else if len(want) > 0 && len(have) > 0 {
					w0, wl, h0, hl := want[0], want[len(want)-1], have[0], have[len(have)-1]
					ok := true
					if !w0.rev {
						ok = ok && w0.p5 == h0.p5 && wl.p3 == hl.p3
					} else {
						ok = ok && w0.p3 == h0.p3 && wl.p5 == hl.p5
					}
					if !ok {
						t.hit("marker outer "+classOf(loc), fmt.Sprintf("%v.Expand(%d,%d)=%v want %v", loc, i, -n, got, want))
					} else {
						t.hit("(merged, outer ok) ", fmt.Sprintf("%v.Expand(%d,%d)=%v", loc, i, -n, got))
					}
				} else if len(want) != len(have) {
					t.hit("marker count "+classOf(loc), fmt.Sprintf("%v.Expand(%d,%d)=%v want %v", loc, i, -n, got, want))
				}
				// between-site tracking: single Between input
				if b, ok := loc.(gts.Between); ok {
					g := int(b)
					gb, isB := got.(gts.Between)
					switch {
					case !isB:
						t.hit("between kind", fmt.Sprintf("%v.Expand(%d,%d)=%v", loc, i, -n, got))
					case g <= i && int(gb) != g:
						t.hit("between left moved", fmt.Sprintf("%v.Expand(%d,%d)=%v", loc, i, -n, got))
					case g >= i+n && int(gb) != g-n:
						t.hit("between right not moved", fmt.Sprintf("%v.Expand(%d,%d)=%v", loc, i, -n, got))
					case g > i && g < i+n && int(gb) != i:
						t.hit("between inside not at cut", fmt.Sprintf("%v.Expand(%d,%d)=%v", loc, i, -n, got))
					}
				}
			}
		}
		// insert-side between tracking and markers unchanged
		for i := 0; i <= L; i++ {
			n := 2
			for _, op := range []string{"shift", "expand"} {
				var got gts.Location
				if op == "shift" {
					got = loc.Shift(i, n)
				} else {
					got = loc.Expand(i, n)
				}
				if b, ok := loc.(gts.Between); ok {
					g := int(b)
					gb := int(got.(gts.Between))
					if (g < i && gb != g) || (g > i && gb != g+n) || (g == i && gb != g && gb != g+n) {
						t.hit("between insert "+op, fmt.Sprintf("%v %s(%d,%d)=%v", loc, op, i, n, got))
					}
				}
				// outer markers preserved
				in, out := rangedAtoms(loc), rangedAtoms(got)
				if len(in) > 0 && len(out) > 0 {
					a0, al, b0, bl := in[0], in[len(in)-1], out[0], out[len(out)-1]
					ok := true
					if !a0.rev {
						ok = a0.p5 == b0.p5 && al.p3 == bl.p3
					} else {
						ok = a0.p3 == b0.p3 && al.p5 == bl.p5
					}
					if !ok {
						t.hit("insert outer markers "+op+" "+classOf(loc), fmt.Sprintf("%v %s(%d,%d)=%v", loc, op, i, n, got))
					}
					// no new markers anywhere
					cnt := func(xs []exp) (c int) {
						for _, x := range xs {
							if x.p5 {
								c++
							}
							if x.p3 {
								c++
							}
						}
						return
					}
					if cnt(out) > cnt(in) {
						t.hit("insert new markers "+op+" "+classOf(loc), fmt.Sprintf("%v %s(%d,%d)=%v", loc, op, i, n, got))
					}
				}
			}
		}
	}
	for k, v := range t {
		fmt.Printf("%6d  %-50s e.g. %s\n", v, k, examples[k])
	}
}
