package main

import (
	"fmt"

	"github.com/go-gts/gts"
)

func apiProbe(locs []gts.Location, L int) {
	t := tally{}
	base := []byte("abcdefghijklmnop")[:L]
	n := 0
	for li, loc := range locs {
		if containsPoint(loc) || li%3 != 0 {
			continue
		}
		hasA := false
		for _, a := range atoms(loc) {
			if a.kind == 'a' {
				hasA = true
			}
		}
		for _, key := range []string{"gene", "source"} {
			seq := gts.New(nil, gts.FeatureSlice{{Key: key, Loc: loc, Props: gts.Props{{"id", "1"}}}}, append([]byte{}, base...))
			d0 := den(loc)
			for s := -L; s <= L; s++ {
				for e := -L; e <= L; e++ {
					ss, ee := s, e
					if ss < 0 {
						ss += L
					}
					if ee < 0 {
						ee += L
					}
					if ss == ee {
						continue // empty windows unconstrained
					}
					wrap := ee < ss
					if wrap && hasA {
						continue
					}
					n++
					var out gts.Sequence
					if p := try(func() { out = gts.Slice(seq, s, e) }); p != nil {
						t.hit("slice panic", fmt.Sprintf("%v Slice(%d,%d): %v", loc, s, e, p))
						continue
					}
					// window positions in order
					var win []int
					if !wrap {
						for x := ss; x < ee; x++ {
							win = append(win, x)
						}
					} else {
						for x := ss; x < L; x++ {
							win = append(win, x)
						}
						for x := 0; x < ee; x++ {
							win = append(win, x)
						}
					}
					wb := make([]byte, len(win))
					newpos := map[int]int{}
					for k, x := range win {
						wb[k] = base[x]
						newpos[x] = k
					}
					if string(out.Bytes()) != string(wb) {
						t.hit("slice bytes", fmt.Sprintf("Slice(%d,%d)=%s want %s", s, e, out.Bytes(), wb))
					}
					var want []res
					for _, r := range d0 {
						if k, ok := newpos[r.pos]; ok {
							want = append(want, res{k, r.rev})
						}
					}
					ff := out.Features()
					if len(want) == 0 {
						// must be dropped unless zero-length edge ambiguity: allow Between-only survivors? check
						if len(ff) != 0 {
							allB := true
							for _, a := range atoms(ff[0].Loc) {
								if a.kind != 'b' {
									allB = false
								}
							}
							if len(d0) == 0 {
								continue // zero-length feature: unconstrained
							}
							if allB {
								t.hit("slice kept emptied feature as between "+key, fmt.Sprintf("%v Slice(%d,%d) -> %v", loc, s, e, ff[0].Loc))
							} else {
								t.hit("slice kept non-overlapping "+key, fmt.Sprintf("%v Slice(%d,%d) -> %v", loc, s, e, ff[0].Loc))
							}
						}
						continue
					}
					if len(ff) != 1 {
						t.hit("slice dropped overlapping "+key, fmt.Sprintf("%v Slice(%d,%d)", loc, s, e))
						continue
					}
					got := den(ff[0].Loc)
					fullLen := false
					for _, a := range atoms(loc) {
						if a.kind != 'b' && a.e-a.s == L {
							fullLen = true
						}
					}
					if !eqD(got, want) {
						if wrap && fullLen {
							t.hit("(slice wrap full-length order) ", fmt.Sprintf("%v Slice(%d,%d) -> %v", loc, s, e, ff[0].Loc))
						} else {
							t.hit("slice den "+cls(loc), fmt.Sprintf("%v Slice(%d,%d) -> %v want %v", loc, s, e, ff[0].Loc, want))
						}
					}
					for _, a := range atoms(ff[0].Loc) {
						if a.s < 0 || a.e > len(win) {
							t.hit("slice range", fmt.Sprintf("%v Slice(%d,%d) -> %v", loc, s, e, ff[0].Loc))
						}
						if key == "source" && (a.p5 || a.p3) {
							t.hit("slice source partial", fmt.Sprintf("%v Slice(%d,%d) -> %v", loc, s, e, ff[0].Loc))
						}
					}
				}
			}
		}
	}
	fmt.Println("api cases", n)
	for k, v := range t {
		fmt.Printf("%6d  %-45s e.g. %s\n", v, k, examples[k])
	}
}
