package main

import (
	"fmt"
	"reflect"

	"github.com/go-gts/gts"
)

func cover(ff []gts.Feature, L int) map[string][]int {
	out := map[string][]int{}
	for _, f := range ff {
		k := fmt.Sprintf("%s:%v", f.Key, f.Props)
		c := out[k]
		if c == nil {
			c = make([]int, L+1)
		}
		for _, r := range den(f.Loc) {
			c[r.pos] = 1
		}
		out[k] = c
	}
	return out
}

func repairProbe(L int) {
	t := tally{}
	qa, qb := gts.Props{{"gene", "a"}}, gts.Props{{"gene", "b"}}
	var rs []gts.Location
	for s := 0; s < L; s++ {
		for e := s + 1; e <= L; e++ {
			for _, p := range []gts.Partial{gts.Complete, gts.Partial5, gts.Partial3, gts.PartialBoth} {
				rs = append(rs, gts.PartialRange(s, e, p))
			}
		}
	}
	n := 0
	check := func(ff []gts.Feature, tag string) {
		n++
		var out []gts.Feature
		if p := try(func() { out = gts.Repair(ff) }); p != nil {
			t.hit(tag+" panic", fmt.Sprintf("%v: %v", feats2(ff), p))
			return
		}
		var out2 []gts.Feature
		if p := try(func() { out2 = gts.Repair(out) }); p != nil || !reflect.DeepEqual(out, out2) {
			t.hit(tag+" not idempotent", fmt.Sprintf("%v -> %v -> %v", feats2(ff), feats2(out), feats2(out2)))
		}
		if !reflect.DeepEqual(cover(ff, L), cover(out, L)) {
			t.hit(tag+" coverage changed", fmt.Sprintf("%v -> %v", feats2(ff), feats2(out)))
		}
		// abutting pair exists?
		abut := false
		for i, f := range ff {
			for j, g := range ff {
				if i == j || f.Key != g.Key || !reflect.DeepEqual(f.Props, g.Props) {
					continue
				}
				a, aok := unwrap(f.Loc)
				b, bok := unwrap(g.Loc)
				if !aok || !bok || isC(f.Loc) != isC(g.Loc) {
					continue
				}
				if a.End == b.Start && ((a.Partial.Partial3 && b.Partial.Partial5) || f.Key == "source") {
					abut = true
				}
			}
		}
		if !abut && !reflect.DeepEqual([]gts.Feature(ff), out) {
			t.hit(tag+" changed without abutting pair", fmt.Sprintf("%v -> %v", feats2(ff), feats2(out)))
		}
		if abut && len(out) == len(ff) {
			t.hit(tag+" (abutting pair not merged)", fmt.Sprintf("%v -> %v", feats2(ff), feats2(out)))
		}
	}
	for _, a := range rs {
		for _, b := range rs {
			check([]gts.Feature{{"gene", a, qa}, {"gene", b, qa}}, "2 same")
			check([]gts.Feature{{"gene", a, qa}, {"gene", b, qb}}, "2 diff")
			check([]gts.Feature{{"gene", a.Complement(), qa}, {"gene", b.Complement(), qa}}, "2 same compl")
			check([]gts.Feature{{"gene", a, qa}, {"gene", b.Complement(), qa}}, "2 same mixed")
			check([]gts.Feature{{"source", a, nil}, {"source", b, nil}}, "2 source")
		}
	}
	for i := 0; i < len(rs); i += 3 {
		for j := 1; j < len(rs); j += 3 {
			for k := 2; k < len(rs); k += 5 {
				check([]gts.Feature{{"gene", rs[i], qa}, {"gene", rs[j], qa}, {"gene", rs[k], qa}}, "3 same")
			}
		}
	}
	fmt.Println("repair cases:", n)
	for k, v := range t {
		fmt.Printf("%6d  %-45s e.g. %s\n", v, k, examples[k])
	}
}

func isC(l gts.Location) bool { _, ok := l.(gts.Complemented); return ok }
func unwrap(l gts.Location) (gts.Ranged, bool) {
	if c, ok := l.(gts.Complemented); ok {
		l = c.Location
	}
	r, ok := l.(gts.Ranged)
	return r, ok
}
func feats2(ff []gts.Feature) string {
	s := ""
	for _, f := range ff {
		s += fmt.Sprintf("%s%v:%v ", f.Key, f.Props, f.Loc)
	}
	return s
}
