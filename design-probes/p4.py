import time
from z3 import *
def tdiv(a,b): return If(a>=0, a/b, -((-a)/b))   # z3 Int '/' is floor div for b>0
def trem(a,b): return a - tdiv(a,b)*b
def toOL(n):
    lines = tdiv(n,60); ret = lines*76; last = trem(n,60)
    blocks = tdiv(last,10); ret1 = ret + 10 + blocks*11; lb = trem(last,10)
    return If(last==0, ret, If(lb==0, ret1, ret1+lb+1))
def fromOL(l):
    lines = tdiv(l,76); ret = lines*60; ll = trem(l,76)
    ll2 = ll-11; blocks = tdiv(ll2,11)
    return If(ll==0, ret, ret + blocks*10 + trem(ll2,11))
n=Int('n'); s=Solver(); s.add(n>=0, n<=4*10**18, fromOL(toOL(n))!=n)
t0=time.time(); print("origin roundtrip", s.check(), f"{time.time()-t0:.2f}s")
m=Int('m'); s=Solver(); s.add(n>=0, m>n, m<=4*10**18, toOL(m)<=toOL(n))
t0=time.time(); print("origin monotone", s.check(), f"{time.time()-t0:.2f}s")
# symbolic modulus with bounded quotient: x in [0,4L)
x,L,q,r=Ints('x L q r'); s=Solver()
s.add(L>=1, L<=2**40, x>=0, x<4*L, q>=0, q<4, r>=0, r<L, x==If(q==0,0,If(q==1,L,If(q==2,2*L,3*L)))+r)
# claim: rotating point: (x) mod L then point p -> ((p+n) mod L): check (r + L - n0) ... simple sanity: r == x - q*L and uniqueness
q2,r2=Ints('q2 r2'); s.add(q2>=0,q2<4,r2>=0,r2<L, x==If(q2==0,0,If(q2==1,L,If(q2==2,2*L,3*L)))+r2, r2!=r)
t0=time.time(); print("mod uniqueness", s.check(), f"{time.time()-t0:.2f}s")
# leap year / checkDate equivalence for y in [1,9999]
y=Int('y')
def leap(y): return If(trem(y,400)==0, True, If(trem(y,100)==0, False, trem(y,4)==0))
def leap2(y): return And(y%4==0, Or(y%100!=0, y%400==0))
s=Solver(); s.add(y>=-10**6,y<=10**6, leap(y)!=leap2(y)); t0=time.time(); print("leap", s.check(), f"{time.time()-t0:.2f}s")
