#!/bin/bash
# dev helper: seedcheck.sh <PROP> <seeddir> [tier]  — applies a seeded change to /repo, confirms it
# (suite passes, demo fails with / passes without), runs the property's check, and reverts /repo.
export GOFLAGS=-mod=mod GOPROXY=off GOSUMDB=off GOTOOLCHAIN=local
P=$1; D=$2; TIER=${3:-quick}
cd /repo || exit 2
git diff --quiet || { echo "REPO-DIRTY"; exit 2; }
pkg=$(grep -m1 '^package ' $D/demo_test.go | awk '{print $2}')
case $pkg in gts) dir=. ;; seqio) dir=seqio ;; cache) dir=cmd/cache ;; main) dir=cmd/gts ;; gts_test) dir=. ;; seqio_test) dir=seqio ;; *) dir=. ;; esac
cp $D/demo_test.go $dir/zz_seed_demo_test.go
clean_demo=$(go test -vet=off -count=1 ./$dir 2>&1 | tail -3 | tr '\n' ' ')
git apply $D/patch.diff || { echo "PATCH-DOES-NOT-APPLY"; rm -f $dir/zz_seed_demo_test.go; exit 2; }
seeded_demo=$(go test -vet=off -count=1 ./$dir 2>&1 | tail -3 | tr '\n' ' ')
rm -f $dir/zz_seed_demo_test.go
suite=$(go test -vet=off -count=1 ./... 2>&1 | grep -v "no test files" | tr '\n' ' ')
out=$(/verif/bin/gosym check $P --tier $TIER 2>&1)
code=$?
git checkout -- . 
echo "PROP=$P SEED=$D TIER=$TIER"
echo " demo on clean tree : $clean_demo"
echo " demo with change   : $seeded_demo"
echo " suite with change  : $suite"
echo " check exit=$code"
echo "$out" | grep -E "^(VIOLATION|KNOWN|INCONCL|ENGINE|RESULT)" | cut -c1-220 | head -8
echo "$out" | grep counterexample | awk '{print $2}' | sort | uniq -c | head -8
